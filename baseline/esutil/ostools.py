"""
Module:
    ostools
Purpose:
    A set of tools for working with the operating system.

Classes:
    Class Name:
        DirStack
    Purpose:
        This is a directory simple stack that works like the
        directory stack in Unix shells.  See the documentation
        for the DirStack class for more details.

    Example:
        >>> ds=esutil.ostools.DirStack(verbose=True)
        >>> ds.push('~/data')
        ~/data ~
        >>> ds.push('/usr/bin')
        /usr/bin ~/data ~
        >>> ds.pop()
        ~/data ~
        >>> ds.pop()
        ~

    Class Name:
        StagedOutFile
    Purpose:
        A context manager for staging files from temporary directories to
        a final destination.

    Example:
        >>> fname = "/home/jill/output.dat"
        >>> tmpdir = "/tmp"
        >>> with StagedOutFile(fname, tmpdir=tmpdir) as sf:
        ...     with open(sf.path, 'w') as fobj:
        ...         fobj.write("some data")

    Class Name:
        StagedInFile
    Purpose:
        A class to stage a file in to local disk for reading.

    Example:
        >>> fname="/home/jill/output.dat"
        >>> tmpdir="/tmp"
        >>> with StagedInFile(fname,tmpdir=tmpdir) as sf:
        ...     with open(sf.path) as fobj:
        ...         # read some data from fobj

Functions:
    See docs for the individual functions for more info.

    path_join(*paths):
        Join path elements using the system path separator.  Any number of
        inputs can be given.  These must be strings or sequences.  This is
        similar to the os.path.join function but can join any number of path
        elements and supports sequences.

    getenv_check(environment variable name):
        Check for the envrionment variable and raise a RuntimeError if not
        found.  This differs from os.getenv() in that it raises a RuntimeError
        if the variable is not found instead of returning None.

    expand_path:
        Expand all user info such as ~userid and environment variables such as
        $SOMEVAR.  this simple uses a call to both os.path.expanduser and
        os.path.expandvars

    expand_filename:
        Synonym for `expand_path`.

    exec_process:
        Execute a command on the operating system with a possible timeout in
        seconds

    makedirs_fromfile:
        Extract the directory from a file name and create it if it doesn't
        exist.
"""
from __future__ import print_function

import os
import shutil
from sys import stdout, stderr
import subprocess


class DirStack(object):
    """
    Class:
        DirStack
    Purpose:
        A simple directory stack.

    Construction:
        ds=DirStack(verbose=False):  If verbose=True a message is
            printed for push and pop similar to that printed on
            unix systems.
    Methods:
        push(directory): Change to the input directory.  Push the
            current working directory onto the stack.
        pop: Pop the last directory from the stack and change to
            that directory.

    Example:
        >>> ds=esutil.ostools.DirStack(verbose=True)
        >>> ds.push('~/data')
        ~/data ~
        >>> ds.push('/usr/bin')
        /usr/bin ~/data ~
        >>> ds.pop()
        ~/data ~
        >>> ds.pop()
        ~

    """
    def __init__(self, verbose=False):
        self.verbose = verbose
        self._home = os.path.expanduser('~')
        self._dirs = []

    def push(self, dir):
        """
        push(dir):  Change to the indicated dir and push the current
            working directory onto the stack
        """
        dir = os.path.expandvars(dir)
        dir = os.path.expanduser(dir)

        old_dir = os.getcwd()

        os.chdir(dir)

        # only do this *after* we successfully chdir
        self._dirs.append(old_dir)
        if self.verbose:
            self.print_stack()

    def pop(self):
        """
        pop(): Pop the last directory from the stack and change to
            that directory.
        """
        if len(self._dirs) == 0:
            stderr.write("Directory stack is empty\n")
            return

        dir = self._dirs.pop()
        os.chdir(dir)

        if self.verbose:
            self.print_stack()

    def getstack(self):
        """
        getstack(): Return the current stack.
        """
        return self._dirs

    def print_stack(self):
        self.print_dir(os.getcwd())
        for i in range(len(self._dirs)-1, -1, -1):
            d = self._dirs[i]
            self.print_dir(d)
        stdout.write('\n')

    def print_dir(self, dir):
        dir = dir.replace(self._home, '~')
        stdout.write('%s ' % dir)


def path_join(*paths):
    """
    Name:
        path_join
    Calling Sequence:
        path=path_join(any number of paths)

    Purpose:

        Join path elements using the system path separator.  Any number of
        inputs can be given.  These must be strings or sequences.  This is
        similar to the os.path.join function but can join any number of path
        elements and supports sequences.

    Examples:
        # Join three path elements
        p=path_join('/tmp', 'test', 'file.txt') # gives /tmp/test/file.txt


        # join a list of path elements
        p=path_join(['/tmp','file.txt']) # gives /tmp/file.txt

        # Join a path element with a list of path elements
        p=path_join('/tmp', ['test','file.txt']) # gives /tmp/test/file.txt
        p=path_join(['/tmp','test'], 'file.txt') # gives /tmp/test/file.txt

        # nested sequences.  Gives /tmp/test1/test2/file.txt
        p=path_join(['/tmp',['test1','test2']], 'file.txt')
    """

    plist = []
    for path in paths:
        # for py3k unicode will disappear
        if isinstance(path, str):
            plist.append(path)
        elif isinstance(path, (list, tuple)):
            for p in path:
                tpath = path_join(p)
                plist.append(tpath)
        else:
            raise ValueError('paths must be strings or sequences of strings')

    # We now have a list of strings.
    path = os.sep.join(plist)

    return path


def getenv_check(name):
    """
    Name:
        getenv_check
    Calling Sequence:
        val = getenv_check(name)

    Purpose:
        Check for the envrionment variable and raise a RuntimeError if not
        found.  This differs from os.getenv() in that it raises a RuntimeError
        if the variable is not found.

    """
    val = os.getenv(name)
    if val is None:
        raise RuntimeError("Environment variable '%s' is not set" % name)
    return val


def expand_path(filename):
    """
    Name:
        expand_path
    Purpose:
        Expand all user info such as ~userid and environment variables such as
        $SOMEVAR.  this simple uses a call to both os.path.expanduser and
        os.path.expandvars
    Calling Sequence:
        fullpath = expand_path(path)

    """
    fname = os.path.expanduser(filename)
    fname = os.path.expandvars(fname)
    return fname


# synonym
expand_filename = expand_path


def exec_process(command,
                 timeout=None,
                 poll=1,
                 stdout_file=subprocess.PIPE,
                 stderr_file=subprocess.PIPE,
                 shell=True,
                 verbose=False):
    """
    Name:
        exec_process
    Purpose:
        Execute a command on the operating system with a possible timeout in
        seconds

    Calling Sequence:

        exit_status, stdout_returned, stderr_returned = \
           execute_command(command,
                           timeout=None,
                           poll=1,
                           stdout=subprocess.PIPE,
                           stderr=subprocess.PIPE,
                           shell=True,
                           verbose=False)
    Inputs:
        command: A command to run.

    Keywords:
        timeout:
            If this argument is sent, the process will be killed if it runs for
            longer than timeout seconds.
        poll:
            How often to poll the process while waiting for a timeout.  Default
            is 1.
        verbose:
            print the command.

    The rest of the keywords are subprocess.Popen keywords, see docs for
    that module.

    """

    # the user can send file names, PIPE, or a file object
    if isinstance(stdout_file, str):
        stdout_was_entered = False
        stdout_fileobj = open(stdout_file, 'w')
    else:
        stdout_was_entered = True
        stdout_fileobj = stdout_file

    if isinstance(stderr_file, str):
        stderr_was_entered = False
        stderr_fileobj = open(stderr_file, 'w')
    else:
        stderr_was_entered = True
        stderr_fileobj = stderr_file

    # if a list was entered, convert to a string.  Also print the command
    # if requested
    if verbose:
        print('Executing command', file=stderr)
    if isinstance(command, list):
        cmd = ' '.join(command)
        if verbose:
            print(command[0], '   \\', file=stderr)
            for c in command[1:]:
                print('   '+c+'    \\', file=stderr)
    else:
        cmd = command
        if verbose:
            print(cmd, file=stderr)

    stdout.flush()
    pobj = subprocess.Popen(
        cmd,
        stdout=stdout_fileobj,
        stderr=stderr_fileobj,
        shell=shell,
    )

    if timeout is not None:
        exit_status, stdout_ret, stderr_ret = _poll_subprocess(
            pobj, timeout, poll
        )
    else:
        # this just waits for the process to end
        stdout_ret, stderr_ret = pobj.communicate()
        # this is not set until we call pobj.communicate()
        exit_status = pobj.returncode

    # close them if we opened them
    if hasattr(stdout_fileobj, 'close') and not stdout_was_entered:
        stdout_fileobj.close()
    if hasattr(stderr_fileobj, 'close') and not stderr_was_entered:
        stderr_fileobj.close()

    return exit_status, stdout_ret, stderr_ret


def _poll_subprocess(pobj, timeout, poll):
    import time
    import signal

    if poll < 0.1:
        poll = 0.1
    if timeout < 0:
        timeout = poll

    try:
        tm0 = time.time()
        while 1:
            time.sleep(poll)

            exit_status = pobj.poll()
            if exit_status is not None:
                break
            tm = time.time()-tm0
            if tm > timeout:
                break
    except KeyboardInterrupt:
        mess = 'Keyboard Interrupt encountered, halted process %s' % pobj.pid
        os.kill(pobj.pid, signal.SIGTERM)
        raise KeyboardInterrupt(mess)

    # exit status will not be None upon completion.  If we passed
    # the timeout we want to kill the process.
    if exit_status is None:
        stderr.write("Process is taking longer than %s seconds.  "
                     "Ending process\n" % timeout)
        os.kill(pobj.pid, signal.SIGTERM)
        exit_status = 1024
        stdout_ret, stderr_ret = None, None
    else:
        stdout_ret, stderr_ret = pobj.communicate()

    return exit_status, stdout_ret, stderr_ret


def makedirs_fromfile(f, verbose=False, allow_fail=False):
    """
    Extract the directory from a file name and create it if it doesn't exist.

    parameters
    ----------
    filename: string
        The file name
    verbose: boolean, optional
        Optionally print that the dir is being created.
    allow_fail: boolean, optional
        If True, raise an error if the directory cannot be made and it does
        not already exist. Default is False.
    """
    import errno
    from esutil import hdfs

    d = os.path.dirname(f)
    if d == '':
        return

    if hdfs.is_in_hdfs(f):
        if not hdfs.exists(d):
            if verbose:
                print('creating dir:', d)
            hdfs.mkdir(d)
    else:
        if not os.path.exists(d):
            if verbose:
                print('creating dir:', d)
            try:
                os.makedirs(d)
            except OSError as ex:
                if ex.errno == errno.EEXIST and os.path.isdir(d):
                    pass
                else:
                    if not allow_fail:
                        raise


class StagedOutFile(object):
    """A context manager for staging files from temporary directories to
    a final destination.

    Parameters
    ----------
    fname : str
        Final destination path for file.
    tmpdir : str, optional
        If not sent, or `None`, the final path is used and no staging
        is performed.
    must_exist : bool, optional
        If `True`, the file to be staged must exist at the time of staging
        or an `IOError` is thrown. If `False`, this is silently ignored.
        Default `False`.

    Examples
    --------
    >>> fname = "/home/jill/output.dat"
    >>> tmpdir = "/tmp"
    >>> with StagedOutFile(fname, tmpdir=tmpdir) as sf:
    ...     with open(sf.path, 'w') as fobj:
    ...         fobj.write("some data")
    """
    def __init__(self, fname, tmpdir=None, must_exist=False):
        self.must_exist = must_exist
        self.was_staged_out = False
        self._set_paths(fname, tmpdir=tmpdir)

    def _set_paths(self, fname, tmpdir=None):
        fname = os.path.realpath(expand_path(fname))

        self.final_path = fname

        if tmpdir is not None:
            self.tmpdir = os.path.realpath(expand_path(tmpdir))
        else:
            self.tmpdir = tmpdir

        fdir = os.path.dirname(self.final_path)

        if self.tmpdir is None:
            self.is_temp = False
            self.path = self.final_path
        else:
            if not os.path.exists(self.tmpdir):
                os.makedirs(self.tmpdir)

            bname = os.path.basename(fname)
            self.path = os.path.join(self.tmpdir, bname)

            if self.tmpdir == fdir:
                # the user sent tmpdir as the final output dir, no
                # staging is performed
                self.is_temp = False
            else:
                self.is_temp = True

    def stage_out(self):
        """If a tempdir was used, move the file to its final destination.

        Note that you normally would not call this yourself, but rather use a
        context manager, in which case this method is called for you.
        """
        if self.is_temp and not self.was_staged_out:
            if not os.path.exists(self.path):
                if self.must_exist:
                    mess = "temporary file not found: %s" % self.path
                    raise IOError(mess)
                else:
                    return

            if os.path.exists(self.final_path):
                print("removing existing file:", self.final_path)
                os.remove(self.final_path)

            makedirs_fromfile(self.final_path)

            print(
                "staging out '%s' -> '%s'" % (self.path, self.final_path))
            shutil.move(self.path, self.final_path)

        self.was_staged_out = True

    def __enter__(self):
        return self

    def __exit__(self, exception_type, exception_value, traceback):
        self.stage_out()


class StagedInFile(object):
    """
    A class to stage a file in to local disk for reading.

    parameters
    ----------
    fname: string
        original file location
    tmpdir: string, optional
        If not sent or None, no staging is done and the original file
        path is used.

    examples
    --------
    # using a context for the staged file
    fname="/home/jill/output.dat"
    tmpdir="/tmp"
    with StagedInFile(fname,tmpdir=tmpdir) as sf:
        with open(sf.path) as fobj:
            # read some data

    """
    def __init__(self, fname, tmpdir=None):

        self._set_paths(fname, tmpdir=tmpdir)
        self.stage_in()

    def _set_paths(self, fname, tmpdir=None):
        fname = os.path.realpath(expand_path(fname))

        self.original_path = fname

        if tmpdir is not None:
            self.tmpdir = os.path.realpath(expand_path(tmpdir))
        else:
            self.tmpdir = tmpdir

        self.was_staged_in = False
        self._stage_in = False

        if self.tmpdir is not None:
            bdir, bname = os.path.split(self.original_path)
            self.path = os.path.join(self.tmpdir, bname)

            if self.tmpdir == bdir:
                # the user sent tmpdir as the source dir, no
                # staging is performed
                self._stage_in = False
            else:
                self._stage_in = True
        else:
            self.path = self.original_path

    def stage_in(self):
        """
        make a local copy of the file
        """
        import shutil

        if self._stage_in:
            if not os.path.exists(self.original_path):
                raise IOError("file not found:", self.original_path)

            if os.path.exists(self.path):
                print("removing existing file:", self.path)
                os.remove(self.path)
            else:
                makedirs_fromfile(self.path)

            print("staging in", self.original_path, "->", self.path)
            shutil.copy(self.original_path, self.path)

            self.was_staged_in = True

    def cleanup(self):
        if self.was_staged_in and os.path.exists(self.path):
            print("removing temporary file:", self.path)
            os.remove(self.path)
            self.was_staged_in = False

    def __enter__(self):
        return self

    def __exit__(self, exception_type, exception_value, traceback):
        self.cleanup()
