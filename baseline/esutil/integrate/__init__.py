# flake8: noqa

from . import util
from .util import *
