#include <Python.h>
#include "numpy/arrayobject.h"

static PyObject* PyCGauleg_cgauleg(PyObject* self, PyObject* args) {

    double x1=0, x2=0;
    long npts_long=0;

	npy_intp npts = 0;
    PyObject* xarray = NULL;
    PyObject* warray = NULL;
    double *x=NULL, *w=NULL;

	int i, j, m;
	double xm, xl, z1, z, p1, p2, p3, pp=0, pi, EPS, abszdiff;

	PyObject* output_tuple = NULL;

    if (!PyArg_ParseTuple(args, (char*)"ddl", &x1, &x2, &npts_long)) {
        return NULL;
    }

	npts = npts_long;

    xarray = PyArray_ZEROS(
        1,
        &npts,
        NPY_FLOAT64,
        0
    );
    warray = PyArray_ZEROS(
        1,
        &npts,
        NPY_FLOAT64,
        0
    );

    x = (double* ) PyArray_DATA(xarray);
    w = (double* ) PyArray_DATA(warray);

	EPS = 4.e-11;
	pi = 3.141592653589793;

	m = (npts + 1)/2;

	xm = (x1 + x2)/2.0;
	xl = (x2 - x1)/2.0;
	z1 = 0.0;

	for (i=1; i<= m; ++i) 
	{

		z=cos( pi*(i-0.25)/(npts+.5) );

		// always refine at least once: the derivative pp is needed below
		do
		{
			p1 = 1.0;
			p2 = 0.0;
			for (j=1; j <= npts;++j)
			{
				p3 = p2;
				p2 = p1;
				p1 = ( (2.0*j - 1.0)*z*p2 - (j-1.0)*p3 )/j;
			}
			pp = npts*(z*p1 - p2)/(z*z -1.);
			z1=z;
			z=z1 - p1/pp;

			abszdiff = fabs(z-z1);

		} while (abszdiff > EPS);

		x[i-1] = xm - xl*z;
		x[npts+1-i-1] = xm + xl*z;
		w[i-1] = 2.0*xl/( (1.-z*z)*pp*pp );
		w[npts+1-i-1] = w[i-1];


	}


	output_tuple = PyTuple_New(2);
	PyTuple_SetItem(output_tuple, 0, xarray);
	PyTuple_SetItem(output_tuple, 1, warray);
	return output_tuple;
}

static PyMethodDef cgauleg_methods[] = {
    {"cgauleg",               (PyCFunction)PyCGauleg_cgauleg, METH_VARARGS, "run gauleg"},
    {NULL}  /* Sentinel */
};

#if PY_MAJOR_VERSION >= 3
    static struct PyModuleDef moduledef = {
        PyModuleDef_HEAD_INIT,
        "_cgauleg",      /* m_name */
        "Define c version of gauleg",  /* m_doc */
        -1,                  /* m_size */
        cgauleg_methods,    /* m_methods */
        NULL,                /* m_reload */
        NULL,                /* m_traverse */
        NULL,                /* m_clear */
        NULL,                /* m_free */
    };
#endif

#ifndef PyMODINIT_FUNC  /* declarations for DLL import/export */
#define PyMODINIT_FUNC void
#endif
PyMODINIT_FUNC
#if PY_MAJOR_VERSION >= 3
PyInit__cgauleg(void) 
#else
init_cgauleg(void) 
#endif
{
    PyObject* m;

#if PY_MAJOR_VERSION >= 3
    m = PyModule_Create(&moduledef);
    if (m==NULL) {
        return NULL;
    }

#else

    m = Py_InitModule3("_cgauleg", cgauleg_methods, "Define c version of gauleg.");

    if (m==NULL) {
        return;
    }
#endif

    import_array();

#if PY_MAJOR_VERSION >= 3
    return m;
#endif
}
