# flake8: noqa
"""
Package:
    esutil

Sub-packages and modules:
    numpy_util:
        A large number of functions for working with numerical python arrays.
        The focus is primarily on structures, aka recarrays or structured
        arrays.

    io:
        File input/output convenience functions.  Read and write many file
        formats using the same read() write() interface.

    integrate:
        Tools for integration of data and functions.  Currently contains the QGauss
        class for gauss-legendre integration, which relies on the gauleg C++ extension.

    fits:
        A module wrappying pyfits that uses the recfile C extension (see below) to
        read subset of rows and columns from binary tables.

    recfile:
        Contains the class Recfile for efficiently reading and writing
        structured numpy arrays to and from binary and ascii files.  Individual
        columns and rows can be selected.   Underlying code is C++ linked
        as an extension.

    stat:
        This packages contains tools for statistical analysis, including an IDL-like
        histogram function.  The histogram function is written in C++ and linked
        as an extension.

    cosmology:
        A set of tools for calculating distances in an expanding universe.
        These routines are completely general for any specified omega_m,
        omega_k, and cosmological constant omega_l.  This code follows the
        conventions of Hogg astro-ph/9905116.  The underlying calculations
        are done in an extension module written in C

    coords:
        A set of astronomical utilities for dealing with coordinates and
        coordinate transformations.

    wcsutil:
        Fast tools for working with the World Coordinat System used in astronomy to
        convert instrument coordinates to sky coordinates.

    htm:
        Tools for working with the Hierarchical Triangular Mesh, whic his a
        method for breaking the unit sphere into a tree structure where each
        node in the tree is represented by a spherical triangle.   This can be
        used for fast searching of the sphere and matching lists of points.

        The underlying code is C++ linked as an extension.



    json_util:
        Convienience functions for working with JSON files
        http://en.wikipedia.org/wiki/JSON

    misc:
        Miscellaneous usefule tools, such as a tool for printing variables
        in column format, pretty printing elapsed time, executing system
        processes, sub-selecting from a dictionary, etc.


    sqlite_util
        Tools for working with an sqlite database, including the ability to write
        record arrays to tables and read from tables into rec arrays.

    random:
        A class to generate random numbers from arbitrary distributions.

    ostools
    plotting
    sfile
    xmltools
    oracle_util
"""

import sys

__version__ = "0.6.16"

def version():
    return __version__

def get_python_version(numerical=False):
    if numerical:
        v=sys.version_info[0:3]
        pyvers=v[0] + 0.1*v[1] + 0.01*v[2]
    else:
        pyvers='v%s.%s.%s' % sys.version_info[0:3]
    return pyvers


from . import algorithm
from . import xmltools
from . import ostools
from . import misc
from . import integrate
from . import json_util
from . import stat
from . import numpy_util
from . import oracle_util
from . import sfile
from . import io
from . import wcsutil
from . import cosmology
from . import coords
from . import coords as astro_util
from . import plotting
from . import hdfs
from . import random
from . import recfile
from . import htm
from . import pbar

try:
    from .import sqlite_util
except:
    pass


from . import fits
try:
    from .import pyfitspatch
except:
    pass

try:
    from . import pyfitspatch240
except:
    pass
