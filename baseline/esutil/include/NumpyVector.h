/*
   NumpyVector.h

   This is simple wrapper class for 1-d and scalar numpy arrays.  Only
   numerical data are supported at this time.  It should be straightforward
   to expand this to higher dimensions.  It is *not* easy to support 
   std::string, but char* type strings may be easier..

   This is a header-only template class.  Simply include it and use.

   Examples:
      #include "NumpyVector.h"

      // creating a new int vector of size 100.  Internally this is a
      // PyArrayObject
      NumpyVector<int> vec(100);



      // Get some info about the array

      // the string representation of the type, from <typeinfo>
      cout<<"type name is: "<<vec.type_name()<<"\n";

      // The numpy type number
      int type_num = vec.type_num();

      // the number of elements in the vector
      npy_intp nel = vec.size();

      // the stride of the array
      npy_inpt stride = vec.stride();



      // double vector from an input python object (PyObject*).  
      // Could be array, python  sequence, or scalar.  The result will only
      // be copied if the obj is not already a double vector in native byte
      // ordering.

      NumpyVector<double> vec(obj);


      // Access data in a way that is aware of strides and is type-safe.  
      // No bounds checking is done
      vec[35] = 22.2;
      double val = vec[35];

      // Loop over data in a simple, type-safe, and stride-aware way.
      for (npy_intp i=0; i<vec.size(); i++) {
          val = vec[i];
          vec[i] = val*26;
      }

      // using an iterator.  This is not faster than the above.
      for (NumpyVector<npy_double>::iterator it=dvec.begin(); 
              it != dvec.end(); it++) {
          double val=*it;
      }

      // This is the fastest way to loop using strides.  use char* to avoid
      // warnings from g++

      char* p = (char*) vec.void_ptr();
      npy_intp stride = vec.stride();  // zero for scalars
      for (npy_intp i=0; i<vec.size(); i++) {
          val = *(double *) *p;
          p = p + stride;
      }


      // get pointer to particular location.  This is stride-aware.  Do *NOT*
      // perform pointer arithmetic with this pointer unless you know the
      // stride is equal to the element size (e.g. 8 for double).  See example
      // above for proper way to do pointer arithmetic

      double* p = vec.ptr();
      double* p = vec.ptr(22);


      // get a reference for returning to python.  Reference counting is
      // done correctly

      PyObject* output = vec.getref();
      return output;


 */


#ifndef _numpy_vector_h
#define _numpy_vector_h

#include <Python.h>
#include <iostream>
#include <sstream>
#include <typeinfo>
#include <map>
#include <stdint.h>
#include <iterator>
#include "numpy/arrayobject.h"



template <class T> class NumpyVector {
	public:

        // simple constructor
		NumpyVector() throw (const char *);

        // destructor.  Always decref the array
		~NumpyVector() {
			Py_XDECREF(mArray);
		};

		// Construct from existing python object.  See init(PyObject* obj)
		NumpyVector(PyObject* obj) throw (const char *);

		// Construct a new array with the given length
		NumpyVector(npy_intp size) throw (const char *);



        // Initialize from an input python object, converting to an array of
        // the right type and native byte order if necessary. If already the
        // right type, etc. then no copy is made.
        //
        // If the data are already an array, must be zero or 1-dimensional.
        //
        // This can be called at *any time* and any existing data will
        // be released
        
        void init(PyObject* obj)  throw (const char *);

		// Initialize from scratch based on size and typenum
        //
        // This can be called at *any time* and any existing data will
        // be released
		
        void init(npy_intp size)  throw (const char *);


        // Random access to the underlying data at the specified location.
        // Returns a writable/readable reference. No bounds checking are 
        // applied.
        //   TODO:  deal properly with const correctness...ugh
        
        T& operator[] (npy_intp index) {
            if (mArray == NULL) {
             throw "Error: attempt to get pointer from an uninitialized array";
            }

            T& ref= *(T* ) PyArray_GetPtr((PyArrayObject*) mArray, &index);
            return ref;
        };


        // Get a pointer to the data.
		T* ptr() throw (const char *);

        // Get a pointer to the data at the indicated location
        // Strides are properly accounted for.  No bounds checking
        // are performed.
		T* ptr(npy_intp index) throw (const char *);

        void* void_ptr() throw (const char*) {
            if (mArray == NULL) {
                throw "Error: attempt to get pointer from an uninitialized array";
            }

            npy_intp index=0;
            return PyArray_GetPtr((PyArrayObject*) mArray, &index);
        }


        // Get a reference the underlying python object and incref the object.
        // This is useful if you want to get a PyObject* that will be returned
        // to the outside world. The internal version will be decrefed when the
        // object is destructed or goes out of scope, so reference counting
        // is correct..

		PyObject* getref() throw (const char *);


        // get the type name.  Equivalent to typeid(T).name()
		const char* type_name() {
			return mTypeName;
		}
        // Return the numpy type number
		int type_num() {
			return mTypeNum;
		}
        // Return the number of elements in the data.
		npy_intp size() {
			return mSize;
		}
        // stride of the data.
        npy_intp stride() {
            return mStride;
        }


        // Interestingly, the iterator is actually slower than just
        // subscripting using brackets []
        class iterator : public std::iterator<std::forward_iterator_tag, T> {
            // use char* to avoid warnings from g++ about void* arithmetic
            char* _ptr;
            int _stride;

            public:
                iterator() : _ptr(NULL), _stride(0) {}
                iterator(char* x, int stride) :_ptr(x), _stride(stride) {}

                iterator(const iterator& mit) : _ptr(mit._ptr), _stride(mit._stride) {}

                iterator& operator++() {
                    _ptr += _stride;
                    return *this;
                }
                iterator operator++(int) {
                    iterator tmp(*this); 
                    operator++(); 
                    return tmp;
                }

                bool operator==(const iterator& rhs) {return _ptr==rhs._ptr;}
                bool operator!=(const iterator& rhs) {return _ptr!=rhs._ptr;}
                T& operator*() {return *(T*) _ptr;}
        };

        iterator begin() {
            char* tptr = (char*) this->void_ptr();
            iterator tmp(tptr, mStride);
            return tmp;
        }
        iterator end() {
            // point just past last element, accounting for stride
            char* tptr = (char*) this->void_ptr();
            iterator tmp(tptr + mSize*mStride, mStride);
            return tmp;
        }


	
	private:

        // This fills in the static type map if it doesn't exist
        void init_type_info();

        // private method to initialize type number and name
        void set_type() throw (const char* );

		const char* mTypeName;
		int mTypeNum;
		npy_intp mSize;
        npy_intp mNdim; // should be 1 or 0
        npy_intp mStride;

		PyObject* mArray;

		static std::map<const char*,int> mNumpyIdMap;
};

// this static data must be re-declared here
template <class T>
std::map<const char*,int> NumpyVector<T>::mNumpyIdMap;

#if PY_MAJOR_VERSION >= 3
static int *init_numpy(void) {
    import_array();
    return NULL;
}
#else
static void init_numpy(void) {
    import_array();
}
#endif


template <class T>
NumpyVector<T>::NumpyVector()  throw (const char *) {
    init_numpy();

    init_type_info();

	// don't forget to initialize
	mArray = NULL;
	mSize=0;
    mNdim=0;
    mStride=0;

    // Initialize internal type info
	set_type();
}


template <class T>
NumpyVector<T>::NumpyVector(PyObject* obj)  throw (const char *) {
    init_numpy();

    init_type_info();

	// don't forget to initialize
	mArray = NULL;
	mSize=0;
    mNdim=0;
    mStride=0;

    // Initialize internal type info
	set_type();
    
	// Get the data.  This may or may not make a copy.
	init(obj);
}


// Create given the length and typenum
template <class T>
NumpyVector<T>::NumpyVector(npy_intp size) throw (const char *) {
    init_numpy();

    init_type_info();

	// don't forget to initialize
	mArray = NULL;
	mSize=0;
    mNdim=0;
    mStride=0;

    // Initialize internal type info
    set_type();

    // create a new array from the size and type info
	init(size);
}

template <class T>
void NumpyVector<T>::init(PyObject* obj)  throw (const char *) {

	// clear any existing array
	Py_XDECREF(mArray);
	mSize=0;

	if (obj == NULL || obj == Py_None) {
		throw "cannot convert the input object to an array: is NULL or None";
	}


    // Is the input object already an array?
    if (PyArray_Check(obj)) {

        // If it is the right type, then just check it is not byteswapped
        // we will have to decref tmp if a copy is made.

        if (1 < PyArray_NDIM(obj)) {
            throw "Input array dimensions must be <= 1";
        }

        PyArray_Descr* descr = PyArray_DESCR(obj);

        if (descr->type_num == mTypeNum && PyArray_ISNOTSWAPPED(obj)) {
			// We are set!  Just copy the reference.
			mArray = obj;
			Py_INCREF(obj);
        } else {
            // Either it is not the right type or it is byteswapped.  So we
            // need to make a copy.
            mArray = PyArray_Cast((PyArrayObject* ) obj, mTypeNum);

            if (mArray == NULL) {
                // this causes a segfault, don't do it
                //Py_XDECREF(descr);
                std::stringstream err;
                err<<"Cold not cast from type "<<descr->type_num
                    <<" to type "<<mTypeNum;
                throw err.str().c_str();
            }
        }
    
    } else {
        // This is not a PyArray, we need to do a more complex conversion

        // can be scalar, but not higher dimensional than 1
        int min_depth=0, max_depth=1;

        // require the array is in native byte order
        int requirements = NPY_NOTSWAPPED | NPY_ENSUREARRAY;


        PyArray_Descr* descr=NULL;
        descr = PyArray_DescrNewFromType(mTypeNum);

        if (descr == NULL) {
            throw "could not create array descriptor";
        }

        // This will steal a reference to descr, and always returns a new
        // reference for array.  We don't need to decref descr as long as we
        // decref the array
        mArray = PyArray_CheckFromAny(
                obj, descr, min_depth, max_depth, requirements, NULL);

        if (mArray == NULL) {
            // this causes a segfault, don't do it
            //Py_XDECREF(descr);
            throw "Could not get input as array";
        }
    }

    // set the size
	mSize = PyArray_SIZE(mArray);

    // dimensions and stride
    mNdim = PyArray_NDIM(mArray);
    if (mNdim == 0) {
        mStride = 0;
    } else {
        mStride = PyArray_STRIDE(mArray, 0);
    }

}

template <class T>
void NumpyVector<T>::init(npy_intp size)  throw (const char *) {

	// clear any existing array
	Py_XDECREF(mArray);
	mSize=0;

	if (size < 0)  {
		throw "size must be >= 0";
	}

	// Create output flags array
	int ndim=1;
	mArray = PyArray_ZEROS(
			ndim, 
			&size,
            mTypeNum,
			NPY_FALSE);

	if (mArray ==NULL) {
		throw "Could not allocate array";
	}

	mSize = PyArray_SIZE(mArray);
    // dimensions and stride
    mNdim = ndim;
    mStride = PyArray_STRIDE(mArray, 0);

}


// Get a reference the object.  incref the object.
// This is useful if you want to get a PyObject* that will be returned
// to the outside world
template <class T>
PyObject* NumpyVector<T>::getref() throw (const char *) {
	Py_XINCREF(mArray);
	return mArray;
}


template <class T> 
T* NumpyVector<T>::ptr() throw (const char *) {
	if (mArray == NULL) {
		throw "Error: attempt to get pointer from an uninitialized array";
	}

	npy_intp index=0;
	return (T* ) PyArray_GetPtr((PyArrayObject*) mArray, &index);
}

template <class T>
T* NumpyVector<T>::ptr(npy_intp index) throw (const char *) {
	if (mArray == NULL) {
		throw "Error: attempt to get pointer from an uninitialized array";
	}

	return (T*) PyArray_GetPtr((PyArrayObject*) mArray, &index);
}



template <class T>
void NumpyVector<T>::set_type() throw (const char *) {

    const char *name = typeid(T).name();
    if (mNumpyIdMap.count(name) > 0) {
        mTypeNum = mNumpyIdMap[name];
    } else {
        std::stringstream err;
        err<<"NumpyArray: unsupported type: '"<<name<<"'\n";
        throw err.str().c_str();
    }

	mTypeName = name;

}


template <class T>
void NumpyVector<T>::init_type_info() {
    // static class members, only create once and shared by all
    // instances
    if (mNumpyIdMap.empty()) {

        const char* tname;

        tname = typeid(npy_int8).name();
        mNumpyIdMap[tname] = NPY_INT8;
        tname = typeid(npy_uint8).name();
        mNumpyIdMap[tname] = NPY_UINT8;


        tname = typeid(npy_int16).name();
        mNumpyIdMap[tname] = NPY_INT16;
        tname = typeid(npy_uint16).name();
        mNumpyIdMap[tname] = NPY_UINT16;


        tname = typeid(npy_int32).name();
        mNumpyIdMap[tname] = NPY_INT32;
        tname = typeid(npy_uint32).name();
        mNumpyIdMap[tname] = NPY_UINT32;


        tname = typeid(npy_int64).name();
        mNumpyIdMap[tname] = NPY_INT64;
        tname = typeid(npy_uint64).name();
        mNumpyIdMap[tname] = NPY_UINT64;


        tname = typeid(npy_float32).name();
        mNumpyIdMap[tname] = NPY_FLOAT32;

        tname = typeid(npy_float64).name();
        mNumpyIdMap[tname] = NPY_FLOAT64;


		// On OS X 10.6 these can have different names than above
        tname = typeid(short).name();
        mNumpyIdMap[tname] = NPY_SHORT;
        tname = typeid(unsigned short).name();
        mNumpyIdMap[tname] = NPY_USHORT;

        tname = typeid(int).name();
        mNumpyIdMap[tname] = NPY_INT;
        tname = typeid(unsigned int).name();
        mNumpyIdMap[tname] = NPY_UINT;

        tname = typeid(long).name();
        mNumpyIdMap[tname] = NPY_LONG;
        tname = typeid(unsigned long).name();
        mNumpyIdMap[tname] = NPY_ULONG;

        tname = typeid(long long).name();
        mNumpyIdMap[tname] = NPY_LONGLONG;
        tname = typeid(unsigned long long).name();
        mNumpyIdMap[tname] = NPY_ULONGLONG;


        tname = typeid(float).name();
        mNumpyIdMap[tname] = NPY_FLOAT;
        tname = typeid(double).name();
        mNumpyIdMap[tname] = NPY_DOUBLE;


        // And these can *also* have different names
        tname = typeid(int8_t).name();
        mNumpyIdMap[tname] = NPY_INT8;
        tname = typeid(uint8_t).name();
        mNumpyIdMap[tname] = NPY_UINT8;


        tname = typeid(int16_t).name();
        mNumpyIdMap[tname] = NPY_INT16;
        tname = typeid(uint16_t).name();
        mNumpyIdMap[tname] = NPY_UINT16;


        tname = typeid(int32_t).name();
        mNumpyIdMap[tname] = NPY_INT32;
        tname = typeid(uint32_t).name();
        mNumpyIdMap[tname] = NPY_UINT32;


        tname = typeid(int64_t).name();
        mNumpyIdMap[tname] = NPY_INT64;
        tname = typeid(uint64_t).name();
        mNumpyIdMap[tname] = NPY_UINT64;


    }
}





#endif
