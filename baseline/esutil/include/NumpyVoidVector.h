/*
   NumpyVoidVector.h
  
   This is simple wrapper class for 1-d and scalar numpy arrays.  
   The purpose of this class is to handle the reference counting
   and to simplify creation of arrays from input descriptors.
  
   For explicitly typed vectors, use the NumpyVector class.
  
   This is a header-only class.  Simply include it and use.
  
   Examples:
      #include "NumpyVoidVector.h"
  
      // creating a new vector of any type from a PyObject*
      NumpyVoidVector vec(obj);
  
      //
      // Create from a type string
      //
  
      // specifying length
      NumpyVoidVector vec("i4", 25);
      // converting the input object
      NumpyVoidVector vec("f8", [1.2,3.5,725.2]);
  
      //
      // Create from a full numpy PyArray_Descr
      //
  
      NumpyVoidVector vec(descr, obj);
      NumpyVoidVector vec(descr, 35);
  
  
  
      // get a reference for returning to python.  Reference counting is
      // done correctly
  
      PyObject* output = vec.getref();
      return output;
  
  
      // Get some info about the array
  
      // The numpy type number
      int type_num = vec.type_num();
  
      // the number of elements in the vector
      npy_intp nel = vec.size();
  
      // the stride of the array
      npy_intp stride = vec.stride();
  
      // Size of each element
      npy_intp itemsize = vec.item_size();
  
  
      // Access data without knowledge of type
      void* p = vec.ptr();
  
      // if we know the data are double...
      if (vec.type_num() == NPY_FLOAT64) {
          double* p = (double* ) vec.ptr();
      }
  
      // get pointer to particular location.  This is stride-aware.
      void* p = vec.ptr(22);
  
      // If we knew the data were float32
      for (npy_intp i=0; i<vec.size(); i++) {
          npy_float32* p = (npy_float32* ) vec.ptr(i);
          // do something interesting
      }
  
  
      // This is the fastest way to loop using strides.
      // in this example, we know the data type is int32
      // use char* to hold the pointer, to avoid warnings
      // from g++
  
      npy_intp stride = vec.stride();  // zero for scalars
      char* p = (char*) vec.ptr();
      for (npy_intp i=0; i<vec.size(); i++) {
          npy_int32 val = *(npy_int32*) p;
          p = p + stride;
      }
  
  
     
 */


#ifndef _numpy_void_vector_h
#define _numpy_void_vector_h

#include <Python.h>
#include <iostream>
#include <sstream>
#include <string>
#include "numpy/arrayobject.h"

#if PY_MAJOR_VERSION >= 3
static int *init_numpy(void) {
    import_array();
    return NULL;
}
#else
static void init_numpy(void) {
    import_array();
}
#endif


class NumpyVoidVector {
	public:


        //
        //
        // Constructors
        //
        //


        // Simple constructor with no data created
        NumpyVoidVector()  throw (const char *) {
            // DONT FORGET THIS!!!!
            init_numpy();

            mArray=NULL;
            // This will zero everything since array is not created
            set_type_info();
        }



        // Construct from existing python object, allowing it to be any type.
        // See init(PyObject* obj)

        NumpyVoidVector(PyObject* obj)  throw (const char *) {
            // DONT FORGET THIS!!!!
            init_numpy();

            mArray=NULL;
            // Get the data.  This may or may not make a copy.
            init(obj);
        }


        // construct from a string dtype

        // from a python object
        NumpyVoidVector(
                const char* dtype, PyObject* obj)  throw (const char *) {
            // DONT FORGET THIS!!!!
            init_numpy();

            // Get the data.  This may or may not make a copy.
            mArray=NULL;
            init(dtype, obj);

        }
        NumpyVoidVector(
                const std::string& dtype, PyObject* obj)  throw (const char *) {
            // DONT FORGET THIS!!!!
            init_numpy();

            // Get the data.  This may or may not make a copy.
            mArray=NULL;
            init(dtype.c_str(), obj);
        }

        // with specified length
        NumpyVoidVector(
                const char* dtype, npy_intp size)  throw (const char *) {
            // DONT FORGET THIS!!!!
            init_numpy();

            // Get the data.  This may or may not make a copy.
            mArray=NULL;
            init(dtype, size);

        }
        NumpyVoidVector(
                const std::string& dtype, npy_intp size)  throw (const char *) {
            // DONT FORGET THIS!!!!
            init_numpy();

            // Get the data.  This may or may not make a copy.
            mArray=NULL;
            init(dtype.c_str(), size);
        }



        //
        // Constructing with a specified PyArray_Descr
        //

        // From a python object
        NumpyVoidVector(
                PyArray_Descr* descr, PyObject* obj)  throw (const char *) {
            // DONT FORGET THIS!!!!
            init_numpy();

            // Get the data.  This may or may not make a copy.
            mArray=NULL;
            init(descr, obj);

        }
		// with specified length
        NumpyVoidVector(
                PyArray_Descr* descr, npy_intp size) throw (const char *) {
            // DONT FORGET THIS!!!!
            init_numpy();

            // create a new array from the size and type info
            mArray=NULL;
            init(descr,size);
        }



        //
        // destructor.  Always decref the array
        //

		~NumpyVoidVector() {
			Py_XDECREF(mArray);
		};


        //
        // 
        // Initialization methods.
        //
        //

        // Initialize from an input python object, converting to an array of
        // the right type and native byte order if necessary. If already the
        // right type, etc. then no copy is made.
        //
        // If the data are already an array, must be zero or 1-dimensional.
        //
        // This can be called at *any time* and any existing data will
        // be released
        

        void init(PyObject* obj)  throw (const char *) {

            // clear any existing array
            Py_XDECREF(mArray);

            if (obj == NULL || obj == Py_None) {
                throw "cannot convert the input object to an "
                      "array: is NULL or None";
            }

            // can be scalar, but not higher dimensional than 1
            int min_depth=0, max_depth=1;

            // require the array is in native byte order
            int requirements = NPY_NOTSWAPPED;
            mArray = PyArray_CheckFromAny(
                    obj, NULL, min_depth, max_depth, requirements, NULL);

            if (mArray == NULL) {
                throw "Could not get input as array";
            }

            set_type_info();

        }


        // 
        // Init from an existing object, forcing the type to be that
        // specified by the dtype string
        //
        
        void init(
                const char* dtype, PyObject* obj)  throw (const char *) {

            // clear any existing array
            Py_XDECREF(mArray);

            if (obj == NULL || obj == Py_None) {
                throw "cannot convert the input object to an "
                      "array: is NULL or None";
            }

            // We need to generate a PyArray_Descr* from this
            // string.
            PyArray_Descr* descr = descr_from_string(dtype);

            // can be scalar, but not higher dimensional than 1
            int min_depth=0, max_depth=1;

            // require the array is in native byte order
            int requirements = NPY_NOTSWAPPED;
            mArray = PyArray_CheckFromAny(
                    obj, descr, min_depth, max_depth, requirements, NULL);

            if (mArray == NULL) {
                std::stringstream err;
                err<<"Could not get input as array of type: '"<<dtype<<"'";
                throw err.str().c_str();
            }

            set_type_info();

        }
        // just an overload with string insted of char*
        void init(
                const std::string& dtype, PyObject* obj)  throw (const char *) {
            init(dtype.c_str(), obj);
        }

        // 
        // Create new array with the type based on the dtype string, with
        // the indicated size
        //
        void init(
                const char* dtype, npy_intp size)  throw (const char *) {

            std::stringstream err;
            // clear any existing array
            Py_XDECREF(mArray);

            if (size < 0)  {
                throw "size must be >= 0";
            }

            // We need to generate a PyArray_Descr* from this
            // string.
            PyArray_Descr* descr = descr_from_string(dtype);

            // Create output flags array.  Will steal a referene to descr
            // so we can forget about it
            int ndim=1;
            mArray = PyArray_Zeros(
                    ndim, 
                    &size, 
                    descr, 
                    NPY_FALSE);

            if (mArray ==NULL) {
                std::stringstream err;
                err<<"Could not allocate array of type: '"<<dtype<<"'";
                throw err.str().c_str();
            }

            // this is important
            set_type_info();
        }
        // just an overload with string insted of char*
        void init(
                const std::string& dtype, npy_intp size)  throw (const char *) {
            init(dtype.c_str(), size);
        }

        //
        // Init from an existing object, forcing indicated type based
        // on a PyArray_Descr struct
        //
        void init(PyArray_Descr* descr, PyObject* obj)  throw (const char *) {

            // clear any existing array
            Py_XDECREF(mArray);

            if (obj == NULL || obj == Py_None) {
                throw "cannot convert the input object to an "
                      "array: is NULL or None";
            }


            // can be scalar, but not higher dimensional than 1
            int min_depth=0, max_depth=1;

            // require the array is in native byte order
            int requirements = NPY_NOTSWAPPED;
            mArray = PyArray_CheckFromAny(
                    obj, descr, min_depth, max_depth, requirements, NULL);

            if (mArray == NULL) {
                std::stringstream err;
                err<<"Could not get input as array of type: '"
                    <<descr->kind<<"'";
                throw err.str().c_str();
            }
            // this is important
            Py_INCREF(descr);

            set_type_info();
        }

        // 
        // Create new array with the type based on the PyArray_Descr, with
        // the indicated size
        //

        void init(
                PyArray_Descr* descr, npy_intp size)  throw (const char *) {

            // clear any existing array
            Py_XDECREF(mArray);

            if (size < 1)  {
                throw "size must be >= 1";
            }

            // Create output flags array
            int ndim=1;
            mArray = PyArray_Zeros(
                    ndim, 
                    &size, 
                    descr, 
                    NPY_FALSE);

            if (mArray ==NULL) {
                std::stringstream err;
                err<<"Could not allocate array of type: '"<<descr->kind<<"'";
                throw err.str().c_str();
            }

            // this is important
            Py_INCREF(descr);
            set_type_info();
        }


        //
        //
        // Access Methods
        //
        //


        // Get a pointer to the data.
        void* ptr() throw (const char *) {
            if (mArray == NULL) {
                throw "Error: attempt to get pointer from an "
                      "uninitialized array";
            }
            npy_intp index=0;
            return PyArray_GetPtr((PyArrayObject*) mArray, &index);
        }


        // Get a pointer to the data at the indicated location
        // Strides are properly accounted for.  No bounds checking
        // are performed.

        void* ptr(npy_intp index) throw (const char *) {
            if (mArray == NULL) {
                throw "Error: attempt to get pointer from an "
                      "uninitialized array";
            }
            return PyArray_GetPtr((PyArrayObject*) mArray, &index);
        }


        // Get a reference the underlying python object and incref the object.
        // This is useful if you want to get a PyObject* that will be returned
        // to the outside world. The internal version will be decrefed when the
        // object is destructed or goes out of scope, so reference counting
        // is correct..

        PyObject* getref() throw (const char *) {
            Py_XINCREF(mArray);
            return mArray;
        }




        // Return the numpy type number
		int type_num() {
			return mTypeNum;
		}
        // the number of dimensions.  Should be zero or 1
		npy_intp ndim() {
			return mNdim;
		}
        // Return the number of elements in the data.
		npy_intp size() {
			return mSize;
		}
        // stride of the data.
        npy_intp stride() {
            return mStride;
        }
        // size of each row
        npy_intp item_size() {
            return mItemSize;
        }




	private:
        //
        // Private methods
        //



        //
        //
        // Conversions
        //
        //

        // convert dtype strings to PyArray_Descr structures
        PyArray_Descr* descr_from_string(
                const char* dtype) throw (const char*) {

            std::stringstream err;

            // We need to generate a PyArray_Descr* from this
            // string.  Don't forget to decref this
            PyObject* pyobj_dtype= PyString_FromString(dtype);

            PyArray_Descr* descr;
            if (!PyArray_DescrConverter(pyobj_dtype, &descr)) {
                Py_XDECREF(pyobj_dtype);
                err<<"could not convert dtype to PyArray_Descr: '"<<dtype<<"'";
                throw err.str().c_str();
            }
            Py_XDECREF(pyobj_dtype);

            return descr;

        }




        // run this after we've created the array
        void set_type_info() {
            if (mArray != NULL) {
                mTypeNum = PyArray_TYPE(mArray);
                mSize = PyArray_SIZE(mArray);
                mNdim = PyArray_NDIM(mArray);
                // Will segfault if we try to
                // get strides of zero dim array
                if (mNdim == 0) {
                    mStride = 0;
                } else {
                    mStride = PyArray_STRIDE(mArray, 0);
                }

                mItemSize = PyArray_ITEMSIZE(mArray);
            } else {
                mTypeNum = -1;
                mSize = 0;
                mNdim = 0;
                mStride = 0;
                mItemSize = 0;
            }
        }





        //
        //
        // Private data members
        //
        //


		int mTypeNum;
		npy_intp mSize;
        npy_intp mNdim; // should be 1 or 0
        npy_intp mItemSize;
        npy_intp mStride;

		PyObject* mArray;

};




#endif // _numpy_void_vector_h
