/*
  NumpyRecords.h
 
  This is a header-only C++ wrapper class for numpy arrays with fields, A.K.A.
  recarray.  It provides access to the underlying data by name and row
  number.  This is a header-only class, just include it.
 
  RESTRICTIONS: sub-arrays are not yet supported.  Numerical data must be in
  native byte order.
 
  Examples: 
 
      // This is a header-only class, just include it
      #include "NumpyRecords.h"
 
      // initialize from an array with fields.  let's assume this array has a
      // 4-byte integer field, an 8-byte float field, or double, and a 5 byte
      // string field "str".  The dtype would look like:

      dtype = [('id','i4'),('x','f8'),('str','S5')]
 
      NumpyRecords rec(obj);
 
      //
      // Info about the array as a whole
      //

      // the number of rows is returned by size()
      npy_intp nrows = rec.size();

      // size of each row, aka the stride
      // these are synonymous
      npy_intp rowsize = rec.rowsize();
      rowsize = rec.stride();

      // total number of bytes in the entire array
      npy_intp nbytes = rec.nbytes();

 
      //
      // Info about the fields
      //
      
      // number of fields
      npy_intp nfields  = rec.nfields();

      // vector of field names
      vector<string> names = rec.names();
 
      // the name of the 4th field, index 3
      string name3 = rec.name(3);
 
      // number of bytes in a single element of the requested field
      npy_intp idsize = rec.elsize("id");

      // the offset of the field "x" can be accessed either by
      // name or index.  This is how many bytes you need to offset
      // from the beginning of a row to access this field
      
      npy_intp xoffset = rec.offset("x");
 
      // The numpy type code of the field
      int typecode = rec.typecode("id");


      //
      //
      // accessing the underlying data
      //
      //
 
      //
      // Elements can be accessed in a type safe way using template methods.
      // Conversions are done internally.  This can be done either using a
      // function get() or procedurally using copy().
      //

      // copy id as int32, it's declared type
      int32_t i  = rec.get<int32_t>("id", 1);

      // can also convert fields to other types
      int64_t xi = rec.get<int64_t>("x", 5);

      // This is the procedural copy.  The type is simply determined by the
      // type of the input
      rec.copy("x", 5, xi);
      string s;
      rec.copy("str", 3, s);
 
      // You can also copy entire fields to std::vector.
      // convert "id" to an int64 vector
      vector<int64_t> v;
      rec.copy("id", v);

      vector<string> svec;
      rec.copy("str", svec);
      rec.copy("f4field", svec);

      // You can also get a NumpyVector or NumpyVoidVector view of a field Copy
      // is performed if the data types differ or data is not the native byte
      // order.   NumpyVector provides an iterator.
      NumpyVector<double> dvec;
      rec.get("x", dvec);

      NumpyVoidVector dvec;
      rec.get("x", dvec);

      // You can even access the underlying python object for the field
      PyObject* dvec_obj;
      dvec_pyobj = rec.get("x");

      //
      // Unsafe access:  these methods provide pointer access to the underlying
      // data, so can be faster but you need to know the data type.  Also, for
      // string data you need to know the element size, which you can get from
      // the elsize() method. 
      //
      
      // get a pointer to field "id" in the 8th row: Do not perform ++ on int32
      // pointer, rather see below for an example using the stride
      npy_int32* i = (npy_int32*) rec.ptr("id", 8);
 
 
      // The following is a faster way to iterate over all rows: get
      // a pointer to a field in the first row and use the row size to move to the
      // next row.
 
      // this points to "x" in row 0
      char* xptr = rec.ptr("x");
      npy_intp stride = rec.stride();
 
      for (npy_intp i=0; i<rec.size(); i++) {
          double x = *xptr;
 
          // work with this data...
 
          // now point to the next one
          xptr += stride;
      }
 
      // you can also just get a pointer to the beginning of the entire array and
      // then use the stride and row size to access various fields
 
      char* ptr = rec.ptr();
      npy_intp stride = rec.stride();
      npy_intp ioffset = rec.offset("id");
      npy_intp xoffset = rec.offset("x");
 
      for (npy_intp row=0; row<rec.size(); row++) {
          npy_int32* id = (npy_int32*) (ptr+ioffset);
          double*    x  = (double*)    (ptr+xoffset);
 
          // work with this data....
 
          // now move to the next row
          ptr += stride;
      }
 
    // Accessing string fields via ptr().  Because numpy strings are not null
    // terminated, you should use std::string or your own constructed null
    // terminated string as a container for them

    npy_intp strsize = rec.elsize("str");
    string s(strsize, ' ');
    ptr = rec.ptr("str", 1);
    for (npy_intp i=0;i<strsize;i++) {
        s[i] = sptr[i];
    }
 

    Copyright (C) 2010  Erin Sheldon, BNL.  erin.sheldon at gmail.com

    This program is part of esutil.  http://code.google.com/p/esutil/

    This program is free software; you can redistribute it and/or modify
    it under the terms of the GNU General Public License as published by
    the Free Software Foundation; either version 2 of the License, or
    (at your option) any later version.

    This program is distributed in the hope that it will be useful,
    but WITHOUT ANY WARRANTY; without even the implied warranty of
    MERCHANTABILITY or FITNESS FOR A PARTICULAR PURPOSE.  See the
    GNU General Public License for more details.

    You should have received a copy of the GNU General Public License
    along with this program; if not, write to the Free Software
    Foundation, Inc., 51 Franklin St, Fifth Floor, Boston, MA  02110-1301  USA


 */

#ifndef _numpy_records_h
#define _numpy_records_h


#include <Python.h>
#include "numpy/arrayobject.h"

#include <vector>
#include <string>
#include <map>
#include <stdint.h>
#include <sstream>

// this is only used for error messages
#include <typeinfo>

#include "NumpyVector.h"
#include "NumpyVoidVector.h"

#if PY_MAJOR_VERSION >= 3
static int *init_numpy(void) {
    import_array();
    return NULL;
}
#else
static void init_numpy(void) {
    import_array();
}
#endif


class NumpyRecords {
    public:
        NumpyRecords() throw (const char*) {
            init_numpy();
            set_defaults();
        }

        NumpyRecords(PyObject* obj) throw (const char*) {
            init_numpy();
            set_defaults();
            init(obj);
        }

		~NumpyRecords() {
            clear();
		}

        // always call this in the constructor
        void set_defaults() {
            this->array_=NULL;
            this->data_=NULL;
            this->nbytes_=0;
            this->size_=0;
            this->stride_=0;
        }
        void clear() {
            this->typecodes_.clear();
            this->names_.clear();
            this->offsets_.clear();
            this->elsizes_.clear();

            this->field_descr_.clear();

            this->nmap_.clear();

            Py_XDECREF(this->array_);
            set_defaults();
        }


        void init(PyObject* obj) throw (const char*) {
            // clear any existing array and info
            clear();

            if (!PyArray_Check(obj)) {
                throw "input object must be an array";
            }

            this->array_ = obj;
            this->data_ = PyArray_DATA(obj);
            Py_INCREF(obj);

            set_sizes();
            set_field_info();
        }


        //
        // accessors
        //

        // get a pointer at the beginning of all the data
        char* ptr() {
            return (char*) this->data_;
        }

        // return a pointer to the field in the first row.  Make sure you use
        // the offsets and stride to properly access other rows!
        char* ptr(const char* cname) throw (const char*) {
            std::string name=cname;
            return ptr(name);
        }
        char* ptr(std::string& name) {
            check_name(name);

            npy_intp fi = this->nmap_[name];
            char* data = (char*) this->data_;
            return data + this->offsets_[fi];
        }


        // return a pointer to the field and row
        char* ptr(const char* cname, npy_intp row) throw (const char*) {
            std::string name=cname;
            return ptr(name,row);
        }
        char* ptr(std::string& name, npy_intp row) throw (const char*) {
            check_name(name);
            check_row(row);
            npy_intp fi = this->nmap_[name];

            char* data = (char*) this->data_;

            return data + row*this->stride_ + this->offsets_[fi];
        }

        // get the an element of the indicated column and row
        // with the specified type. This one is type safe
        template <typename T> T get(std::string name, npy_intp row) {
            T tmp;
            copy(name, row, tmp);
            return tmp;
        }
        template <typename T> T get(npy_intp field_index, npy_intp row) {
            T tmp;
            copy(field_index, row, tmp);
            return tmp;
        }


        void get(std::string name, NumpyVoidVector& vec) {
            check_name(name);
            npy_intp fi = this->nmap_[name];
            get(fi, vec);
        }
        void get(npy_intp field_index, NumpyVoidVector& vec) {
            PyObject* f = get(field_index);
            vec.init(f);
            // clean up the reference for this field
            Py_XDECREF(f);
        }


        template <typename T>
        void get(std::string name, NumpyVector<T>& vec) {
            check_name(name);
            npy_intp fi = this->nmap_[name];
            get(fi, vec);
        }
        template <typename T>
        void get(npy_intp field_index, NumpyVector<T>& vec) {

            PyObject* f = get(field_index);

            vec.init(f);

            // clean up the reference for this field
            Py_XDECREF(f);
        }


        // Get the field as a C numpy array
        PyObject* get(std::string name) {
            check_name(name);
            npy_intp fi = this->nmap_[name];
            return get(fi);
        }
        // This one is more dangerous since you have to do the
        // ref counting yourself!
        PyObject* get(npy_intp field_index) {

            check_field_index_bound(field_index);

            PyObject *ret=NULL;

            PyArrayObject* array = (PyArrayObject* ) this->array_;
            PyArray_Descr* fdescr = this->field_descr_[field_index];
            npy_intp offset = this->offsets_[field_index];

            ret = PyArray_GetField(array, fdescr, offset);

            if (ret == NULL) {
                std::stringstream err;
                err<<"Got NULL from PyArray_NewFromDescr";
                throw err.str().c_str();
            }

            return ret;

        }

        // total number of bytes
        npy_intp nbytes() {
            return this->nbytes_;
        }

        // number of bytes in requested field
        npy_intp elsize(std::string name) throw (const char*) {
            check_name(name);
            npy_intp fi=this->nmap_[name];
            return elsize(fi);
        }
        npy_intp elsize(npy_intp i) throw (const char*) {
            check_field_index_bound(i);
            return this->elsizes_[i];
        }



        // number of rows
        npy_intp size() {
            return this->size_;
        }

        // The itemsize/rowsize/stride are all synonymous for size of an
        // entire row
        npy_intp strides() {
            return this->stride_;
        }
        npy_intp stride() {
            return this->stride_;
        }
        npy_intp itemsize() {
            return this->stride_;
        }
        npy_intp rowsize() {
            return this->stride_;
        }

        // the offset for a particular field
        npy_intp offset(std::string name) throw (const char*) {
            check_name(name);
            npy_intp fi=this->nmap_[name];
            return offset(fi);
        }
        npy_intp offset(npy_intp i) throw (const char*) {
            check_field_index_bound(i);
            return this->offsets_[i];
        }

        // number of fields in this array
        npy_intp nfields() {
            return this->names_.size();
        }

        // access to the name of a particular field
        std::string name(npy_intp i) throw (const char*) {
            check_field_index_bound(i);
            return this->names_[i];
        }

        // copy of the entire names vector
        std::vector<std::string> names() {
            return this->names_;
        }

        int typecode(npy_intp i) throw (const char*) {
            check_field_index_bound(i);
            return this->typecodes_[i];
        }


        //
        // convert the requested field/row element to the requested type
        //

        // first special methods for strings
        void copy(std::string name, npy_intp row, std::string& str) {
            check_name(name);
            npy_intp fi=this->nmap_[name];
            copy(fi, row, str);
        }
        void copy(npy_intp field_index, npy_intp row, std::string& str) {
            check_field_index_bound(field_index);
            check_row(row);
            int typecode = this->typecodes_[field_index];

            // for conversions
            std::stringstream ss;
            char* ptr = (char*) this->data_;

            // point data to the requested position
            ptr += row*this->stride_ + this->offsets_[field_index];

            switch (typecode) {
                case NPY_STRING:
                    {
                        // copy character by character into the string
                        npy_intp strsize = this->elsizes_[field_index];
                        str.resize(strsize);
                        for (npy_intp i=0; i<strsize; i++) {
                            str[i] = ptr[i];
                        }
                    }
                    break;
				case NPY_INT8: 
					{
                        npy_int8 tmp = *(npy_int8*) ptr; 

                        // convert to integer rep, otherwise it will write it
                        // as a char
                        short ts = (short) tmp;
                        ss<<ts;
                        str = ss.str();
					}
                    break;
				case NPY_UINT8: 
					{
                        npy_uint8 tmp = *(npy_uint8*) ptr; 

                        // convert to integer rep, otherwise it will write it
                        // as a char
                        short ts = (short) tmp;
                        ss<<ts;
                        str = ss.str();

					}
                    break;

				case NPY_INT16: 
					{
                        npy_int16 tmp = *(npy_int16*) ptr; 
                        ss<<tmp;
                        str = ss.str();
					}
                    break;
				case NPY_UINT16: 
					{
                        npy_uint16 tmp = *(npy_uint16*) ptr; 
                        ss<<tmp;
                        str = ss.str();
					}
                    break;

				case NPY_INT32: 
					{
                        npy_int32 tmp = *(npy_int32*) ptr; 
                        ss<<tmp;
                        str = ss.str();
					}
                    break;
				case NPY_UINT32: 
					{
                        npy_uint32 tmp = *(npy_uint32*) ptr; 
                        ss<<tmp;
                        str = ss.str();
					}
                    break;

				case NPY_INT64: 
					{
                        npy_int64 tmp = *(npy_int64*) ptr; 
                        ss<<tmp;
                        str = ss.str();
					}
                    break;
				case NPY_UINT64: 
					{
                        npy_uint64 tmp = *(npy_uint64*) ptr; 
                        ss<<tmp;
                        str = ss.str();
					}
                    break;

				case NPY_FLOAT32: 
					{
                        npy_float32 tmp = *(npy_float32*) ptr; 
                        ss<<tmp;
                        str = ss.str();
					}
                    break;
				case NPY_FLOAT64: 
					{
                        npy_float64 tmp = *(npy_float64*) ptr; 
                        ss<<tmp;
                        str = ss.str();
					}
                    break;

				default:

                    std::stringstream err;
					err<<"Conversion from type code "<<typecode<<" to string is not supported";
					throw err.str().c_str();

            }

        } // copy scalar to string




        template <typename T> void copy(std::string name, npy_intp row, T& var) {
            check_name(name);
            npy_intp fi=this->nmap_[name];
            copy(fi, row, var);
        }
        template <typename T> void copy(npy_intp field_index, npy_intp row, T& var) {
            check_field_index_bound(field_index);
            check_row(row);
            int typecode = this->typecodes_[field_index];

            char* ptr = (char*) this->data_;

            switch (typecode) {
				case NPY_INT8: 
					{
                        // point data to the requested position
                        ptr += row*this->stride_ + this->offsets_[field_index];
                        npy_int8 tmp = *(npy_int8*) ptr; 
                        // now do the conversion
                        var = (T) tmp;
					}
                    break;
				case NPY_UINT8: 
					{
                        // point data to the requested position
                        ptr += row*this->stride_ + this->offsets_[field_index];
                        npy_uint8 tmp = *(npy_uint8*) ptr; 
                        // now do the conversion
                        var = (T) tmp;
					}
                    break;

				case NPY_INT16: 
					{
                        // point data to the requested position
                        ptr += row*this->stride_ + this->offsets_[field_index];
                        npy_int16 tmp = *(npy_int16*) ptr; 
                        // now do the conversion
                        var = (T) tmp;
					}
                    break;
				case NPY_UINT16: 
					{
                        // point data to the requested position
                        ptr += row*this->stride_ + this->offsets_[field_index];
                        npy_uint16 tmp = *(npy_uint16*) ptr; 
                        // now do the conversion
                        var = (T) tmp;
					}
                    break;


				case NPY_INT32: 
					{
                        // point data to the requested position
                        ptr += row*this->stride_ + this->offsets_[field_index];
                        npy_int32 tmp = *(npy_int32*) ptr; 
                        // now do the conversion
                        var = (T) tmp;
					}
                    break;
				case NPY_UINT32: 
					{
                        // point data to the requested position
                        ptr += row*this->stride_ + this->offsets_[field_index];
                        npy_uint32 tmp = *(npy_uint32*) ptr; 
                        // now do the conversion
                        var = (T) tmp;
					}
                    break;

				case NPY_INT64: 
					{
                        // point data to the requested position
                        ptr += row*this->stride_ + this->offsets_[field_index];
                        npy_int64 tmp = *(npy_int64*) ptr; 
                        // now do the conversion
                        var = (T) tmp;
					}
                    break;
				case NPY_UINT64: 
					{
                        // point data to the requested position
                        ptr += row*this->stride_ + this->offsets_[field_index];
                        npy_uint64 tmp = *(npy_uint64*) ptr; 
                        // now do the conversion
                        var = (T) tmp;
					}
                    break;


				case NPY_FLOAT32: 
					{
                        // point data to the requested position
                        ptr += row*this->stride_ + this->offsets_[field_index];
                        npy_float32 tmp = *(npy_float32*) ptr; 
                        // now do the conversion
                        var = (T) tmp;
					}
                    break;

				case NPY_FLOAT64: 
					{
                        // point data to the requested position
                        ptr += row*this->stride_ + this->offsets_[field_index];
                        npy_float64 tmp = *(npy_float64*) ptr; 
                        // now do the conversion
                        var = (T) tmp;
					}
                    break;



				default:

                    std::stringstream err;

                    std::string tname = typeid(T).name();
					err<<"Conversion from type code "<<typecode<<" to '"<<tname<<"' is not supported";
					throw err.str().c_str();

            }

        } // copy scalar

        // copy out to vectors

        // first special string methods
        void copy(std::string name, std::vector<std::string>& svec) {
            check_name(name);
            npy_intp fi=this->nmap_[name];
            copy(fi, svec);
        }
        void copy(npy_intp field_index, std::vector<std::string>& svec) {
            check_field_index_bound(field_index);
            int typecode = this->typecodes_[field_index];

            char* ptr = (char*) this->data_;

            // point data to the requested position
            ptr += this->offsets_[field_index];

            switch (typecode) {
                case NPY_STRING:
                    {
                        svec.resize(this->size_);
                        npy_intp strsize = this->elsizes_[field_index];
                        for (npy_intp row=0;row<this->size_;row++) {
                            // copy character by character into the string
                            svec[row].resize(strsize);
                            for (npy_intp i=0; i<strsize; i++) {
                                svec[row][i] = ptr[i];
                            }
                        }
                    }
                    break;
				case NPY_INT8: 
                    copy2stringvector<npy_int8>(ptr, svec);
                    break;
				case NPY_UINT8: 
                    copy2stringvector<npy_uint8>(ptr, svec);
                    break;

				case NPY_INT16: 
                    copy2stringvector<npy_int16>(ptr, svec);
                    break;
				case NPY_UINT16: 
                    copy2stringvector<npy_uint16>(ptr, svec);
                    break;

				case NPY_INT32: 
                    copy2stringvector<npy_int32>(ptr, svec);
                    break;
				case NPY_UINT32: 
                    copy2stringvector<npy_uint32>(ptr, svec);
                    break;

				case NPY_INT64: 
                    copy2stringvector<npy_int64>(ptr, svec);
                    break;
				case NPY_UINT64: 
                    copy2stringvector<npy_uint64>(ptr, svec);
                    break;

				case NPY_FLOAT32: 
                    copy2stringvector<npy_float32>(ptr, svec);
                    break;
				case NPY_FLOAT64: 
                    copy2stringvector<npy_float64>(ptr, svec);
                    break;

				default:

                    std::stringstream err;
					err<<"Conversion from type code "<<typecode<<" to string is not supported";
					throw err.str().c_str();

            }

        } // copy scalar to string




        template <typename T> void copy(std::string name, std::vector<T>& vec) {
            check_name(name);
            npy_intp fi=this->nmap_[name];
            copy(fi, vec);
        }
        template <typename T> void copy(npy_intp field_index, std::vector<T>& vec) {
            check_field_index_bound(field_index);
            int typecode = this->typecodes_[field_index];

            char* ptr = (char*) this->data_;
            // point data to the requested position in first row
            ptr += this->offsets_[field_index];

            switch (typecode) {
				case NPY_INT8: 
                    copy2vector<npy_int8>(ptr, vec);
                    break;
				case NPY_UINT8: 
                    copy2vector<npy_uint8>(ptr, vec);
                    break;

				case NPY_UINT16: 
                    copy2vector<npy_uint16>(ptr, vec);
                    break;
				case NPY_INT16: 
                    copy2vector<npy_int16>(ptr, vec);
                    break;

				case NPY_UINT32: 
                    copy2vector<npy_uint32>(ptr, vec);
                    break;
				case NPY_INT32: 
                    copy2vector<npy_int32>(ptr, vec);
                    break;


				case NPY_UINT64: 
                    copy2vector<npy_uint64>(ptr, vec);
                    break;
				case NPY_INT64: 
                    copy2vector<npy_int64>(ptr, vec);
                    break;

				case NPY_FLOAT32: 
                    copy2vector<npy_float32>(ptr, vec);
                    break;
				case NPY_FLOAT64: 
                    copy2vector<npy_float64>(ptr, vec);
                    break;


				default:
                    std::stringstream err;
                    std::string tname = typeid(T).name();
					err<<"Conversion from type code "<<typecode<<" to '"<<tname<<"' is not supported";
					throw err.str().c_str();

            }
        } // copy vectors


    private:

        // private methods

        // get info about the record size and offsets of each field
        // into the row
        void set_sizes() {
            this->stride_ = PyArray_ITEMSIZE(this->array_);
            this->nbytes_   = PyArray_NBYTES(this->array_);
            this->size_     = PyArray_SIZE(this->array_);
        }

        // get information about all fields
        void set_field_info() throw (const char*) {

            std::stringstream err;
            PyArray_Descr* descr = PyArray_DESCR(this->array_);

            if (!PyTuple_Check(descr->names)) {
                throw "input object must have fields";
            }

            npy_intp nfields = PyTuple_Size(descr->names);
            if (nfields == 0) {
                throw "input object must have > 0 fields";
            }

            this->names_.resize(nfields);
            this->offsets_.resize(nfields);
            this->elsizes_.resize(nfields);
            this->typecodes_.resize(nfields);
            this->field_descr_.resize(nfields);

            // hold descriptor information
            PyArray_Descr *fdescr, *title;

            for (npy_intp i=0; i<nfields; i++) {

                // get the name of this field
                PyObject* name_obj = PyTuple_GET_ITEM(descr->names, i);
                std::string name = PyString_AS_STRING(name_obj);
                //name = name+'\0';
                this->names_[i] = name;

                // now type info for this field
                PyObject* item = PyDict_GetItemString(
                        descr->fields,
                        this->names_[i].c_str());

                npy_intp toffset;
                if (PyArg_ParseTuple(item, "Ol|O", &fdescr, &toffset, &title)) {

                    this->offsets_[i] = toffset;
                    this->typecodes_[i] = fdescr->type_num;
                    this->elsizes_[i] = fdescr->elsize;
                    this->field_descr_[i] = fdescr;

                } else {
                    err<<"could not parse field "<<this->names_[i];
                    throw err.str().c_str();
                }

                this->nmap_[name] = i;
                fflush(stdout);

            }
        }


        void check_field_index_bound(npy_intp i) throw (const char*) {
            if (i < 0 || i >= (npy_intp)this->names_.size()) {
                std::stringstream err;
                err<<"requested field "<<i
                    <<" is out of bounds [0, "<<this->names_.size()-1<<"]";
                throw err.str().c_str();
            }
        }

        //void check_name(const char* name) throw (const char*) {
        void check_name(const char* cname)  throw (const char*) {
            std::string name=cname;
            check_name(name);
        }
        void check_name(std::string& name) throw (const char*) {
            if (this->nmap_.count(name) == 0) {
                std::stringstream err;
                err<<"field name '"<<name<<"' not found";
                throw err.str().c_str();
            }
        }

        void check_row(npy_intp row) throw (const char*) {
            if (row < 0 || row >= this->size_) {
                std::stringstream err;
                err<<"row "<<row<<" is out of bounds: [0, "<<(this->size_-1)<<"]";
                throw err.str().c_str();
            }
        }

        template <typename T> void copy2stringvector(char* ptr, std::vector<std::string>& svec) {
            svec.resize(this->size_);
            for (npy_intp i=0;i<this->size_;i++) {
                std::stringstream ss;
                T tmp = *(T*) ptr; 
                ss<<tmp;
                svec[i] = ss.str();
                ptr += this->stride_;
            }
        }
        template <typename T1, typename T2> void copy2vector(char* ptr, std::vector<T2>& vec) {
            vec.resize(this->size_);
            for (npy_intp i=0;i<this->size_;i++) {
                T1* tptr = (T1*) ptr; 
                vec[i] = (T2) ( *tptr );
                ptr += this->stride_;
            }
        }



        // private data
        PyObject* array_;
        void* data_;

        npy_intp size_;
        npy_intp nbytes_;
        npy_intp stride_;

        std::vector<int> typecodes_;
        std::vector<std::string> names_;
        std::vector<npy_intp> offsets_;
        std::vector<npy_intp> elsizes_;
        // these are just the pointers, stolen ref, no copy
        std::vector<PyArray_Descr *> field_descr_;

        std::map<std::string, npy_intp> nmap_;
};

#endif // _numpy_records_h
