"""
heavily simplified version of the original simple tqdm from

https://github.com/noamraph/tqdm
"""
__all__ = ['pbar', 'prange', 'PBar']

import sys
import time


def pbar(iterable, desc='', total=None, leave=True, file=sys.stderr,
         mininterval=0.5, miniters=1, n_bars=20, simple=False):
    """
    Get an iterable object, and return an iterator which acts exactly like the
    iterable, but prints a progress meter and updates it every time a value is
    requested.

    parameters
    ----------
    iterable: iterable
        An iterable that is iterated over; the objects are yielded
    desc: string, optional
        An optional short string, describing the progress, that is added
        in the beginning of the line.
    total: int, optional
        Optional number of expected iterations. If not given,
        len(iterable) is used if it is defined.
    file: file-like object, optional
        A file-like object to output the progress message to. Default
        stderr
    leave: bool, optional
        If True, leave the remaining text from the progress.  If False,
        delete it.
    mininterval: float, optional
        default 0.5
    miniters: int, optional
        default 1

        If less than mininterval seconds or miniters iterations have passed
        since the last progress meter update, it is not updated again.
    n_bars: int
        Number of bars to show
    simple: bool
        If set to True, a simple countup 0 to 9 is show, independent
        of the other inputs.  Useful when you don't want to spam
        a log file with lots of data
            |0123456789|
    """
    if simple:
        return sbar(iterable, desc=desc, total=total, file=file)
    else:
        return _pbar_full(
            iterable, desc=desc, total=total, file=file,
            leave=leave, mininterval=mininterval, miniters=miniters,
            n_bars=n_bars, simple=simple,
        )


PBar = pbar


def _pbar_full(
    iterable, desc='', total=None, leave=True, file=sys.stderr,
    mininterval=0.5, miniters=1, n_bars=20, simple=False,
):
    """
    See docs for pbar
    """
    prefix = desc+': ' if desc else ''

    if total is None:
        try:
            total = len(iterable)
        except TypeError:
            total = None

    if simple:
        # we need enbed this because pbar is a generator
        assert total is not None, (
            'iterable must have len or send total for simple pbar'
        )
        _pnn(prefix + '|', file)
        plast = -1
        for i, obj in enumerate(iterable):
            yield obj
            i += 1

            p = int(i / total * 10)
            if p > plast:
                _pnn(p, file)
                plast = p

        print('|', file=file, flush=True)
        return

    sp = StatusPrinter(file)
    sp.print_status(prefix + format_meter(0, total, 0, n_bars=n_bars))

    start_t = last_print_t = time.time()
    last_print_n = 0
    n = 0
    for obj in iterable:
        yield obj
        # Now the object was created and processed, so we can print the meter.
        n += 1
        if n - last_print_n >= miniters:
            # We check the counter first, to reduce the overhead of time.time()
            cur_t = time.time()
            if cur_t - last_print_t >= mininterval:
                pstat = format_meter(
                    n,
                    total,
                    cur_t-start_t,
                    n_bars=n_bars,
                )
                sp.print_status(prefix + pstat)

                last_print_n = n
                last_print_t = cur_t

    if not leave:
        sp.print_status('')
        file.write('\r')
    else:
        if last_print_n < n:
            cur_t = time.time()

            pstat = format_meter(
                n,
                total,
                cur_t-start_t,
                n_bars=n_bars,
            )
            sp.print_status(prefix + pstat)
        file.write('\n')


def sbar(iterable, desc='', total=None, file=sys.stderr):
    """
    Get an iterable object, and return an iterator which acts exactly like the
    iterable, but prints progress meter.  This simple version does a countup 0
    to 9, independent of the other inputs.  Useful when you don't want to spam
    a log file with lots of data

            |0123456789|

    parameters
    ----------
    iterable: iterable
        An iterable that is iterated over; the objects are yielded
    desc: string, optional
        An optional short string, describing the progress, that is added
        in the beginning of the line.
    total: int, optional
        Optional number of expected iterations. If not given,
        len(iterable) is used if it is defined.
    file: file-like object, optional
        A file-like object to output the progress message to. Default
        stderr
    """

    prefix = desc+': ' if desc else ''

    if total is None:
        try:
            total = len(iterable)
        except TypeError:
            raise RuntimeError(
                'for sbar you must send total= '
                'if the iterable does not provide length'
            )

    def pnn(d):
        print(d, end='', file=file, flush=True)

    pnn(prefix + '|')
    plast = -1
    tm0 = time.time()
    for i, obj in enumerate(iterable):
        yield obj
        i += 1

        p = int(i / total * 10)

        if p > plast:
            pnn(p)
            plast = p

    tm = time.time() - tm0
    tms = format_interval(tm)
    print(f'| {tms}', file=file, flush=True)


def prange(*args, **kwargs):
    """
    A shortcut for writing pbar(range(...))

    Parameters
    ----------
    Same args as for range.   Extra keywords are sent to
    Pbar

    e.g.

    for i in prange(20):
        print(i)
        time.sleep(0.1)
    """
    return pbar(range(*args), **kwargs)


def pmap(fn, iterable, chunksize=1, nproc=1, **kw):
    """
    Execute the function on the inputs using multiple processes, while showing
    a progress bar.  The result is equivalent to doing

        list(map(fn, iterable))

    Parameters
    ----------
    fn: function
        The function to execute
    iterable: iterable data
        The data over which to iterate
    chunksize: int, optional
        Default 1. It is often must faster to send large
        chunks of data rather than 1.
    nproc: int, optional
        Number of processes to use, default 1
    **kw:
        Additional keyword arguments for the progress bar.
        See pbar for details

    Returns
    -------
    An list of data, the equivalent of
        list(map(fn, iterable))
    """
    from concurrent.futures import ProcessPoolExecutor

    with ProcessPoolExecutor(max_workers=nproc) as ex:
        res = list(pbar(ex.map(fn, iterable, chunksize=chunksize), **kw))

    return res


def format_interval(t):
    mins, s = divmod(int(t), 60)
    h, m = divmod(mins, 60)
    if h:
        return '%d:%02d:%02d' % (h, m, s)
    else:
        return '%02d:%02d' % (m, s)


def format_meter(n, total, elapsed, n_bars=20):
    # n - number of finished iterations
    # total - total number of iterations, or None
    # elapsed - number of seconds passed since start
    if total is not None and n > total:
        total = None

    elapsed_str = format_interval(elapsed)

    if total:
        frac = float(n) / total

        bar_length = int(frac*n_bars)
        bar = '#'*bar_length + '-'*(n_bars-bar_length)

        percentage = '%3d%%' % (frac * 100)

        if elapsed > 0:
            it_per_second = n / elapsed  # iterations per second
            if it_per_second > 1:
                rate_str = f'{it_per_second:.3g} it/s'
            else:
                second_per_it = elapsed / n
                rate_str = f'{second_per_it:.3g} s/it'
        else:
            rate_str = '---'

        left_str = format_interval(elapsed / n * (total-n)) if n else '?'

        totstr = str(total)
        nfmt = '%' + str(len(totstr)) + 'd'
        meter_fmt = '|%s| ' + nfmt + '/' + nfmt + ' %s [%s<%s %s]'

        return meter_fmt % (
            bar, n, total, percentage, elapsed_str, left_str, rate_str
        )

    else:
        return '%d [elapsed: %s]' % (n, elapsed_str)


class StatusPrinter(object):
    def __init__(self, file):
        self.file = file
        self.last_printed_len = 0

    def print_status(self, s):
        self.file.write('\r'+s+' '*max(self.last_printed_len-len(s), 0))
        self.file.flush()
        self.last_printed_len = len(s)


def _pnn(d, file):
    print(d, end='', file=file, flush=True)
