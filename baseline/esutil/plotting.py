import numpy as np
from . import random
from . import numpy_util
from . import stat
from . import coords


def bscatter(xin, yin, show=True, plt=None, **keywords):
    """
    Name:
        bscatter
    Purpose:
        A wrapper to perform a quick scatter plot with biggles.  For anything
        more complex, it is better to use the object oriented interface.

    Calling Sequence:
        bscatter(x, y,
                 xerr=None,
                 yerr=None,
                 xrange=None,
                 yrange=None,
                 type='filled circle',
                 color=None,
                 xlabel=None,
                 ylabel=None,
                 label=None,
                 title=None,
                 file=None,
                 xsize=None,
                 ysize=None,
                 aspect_ratio=None,
                 show=True,
                 plt=None)

    Return value is the used biggles plot object.

    For overplotting, send an existing biggles plot object in the plt= keyword

    """

    import biggles

    if plt is None:
        plt = biggles.FramedPlot()
        xlog = keywords.get("xlog", False)
        ylog = keywords.get("ylog", False)
    else:
        xlog = plt.xlog
        ylog = plt.ylog

    pdict = {}

    # plot symbol or line type
    type = keywords.get("type", "filled circle")

    xerr = keywords.get("xerr", None)
    yerr = keywords.get("yerr", None)
    x = xin
    y = yin

    xrng = keywords.get("xrange", None)
    yrng = keywords.get("yrange", None)

    # For log, Don't plot points less than zero
    w = None
    if xlog and ylog:
        xrng = get_log_plot_range(x, err=xerr, input_range=xrng)
        yrng = get_log_plot_range(y, err=yerr, input_range=yrng)
        (w,) = np.where((x > xrng[0]) & (y > yrng[0]))
    elif xlog:
        xrng = get_log_plot_range(x, err=xerr, input_range=xrng)
        (w,) = np.where(x > xrng[0])
    elif ylog:
        yrng = get_log_plot_range(y, err=yerr, input_range=yrng)
        (w,) = np.where(y > yrng[0])

    if w is not None:
        if w.size == 0:
            raise ValueError("no points > 0 for log plot")
        x = x[w]
        y = y[w]

    pkeywords = {}
    if "color" in keywords:
        pkeywords["color"] = keywords["color"]

    if "width" in keywords:
        pkeywords["width"] = keywords["width"]
    if type in [
        "solid",
        "dotted",
        "dotdashed",
        "shortdashed",
        "longdashed",
        "dotdotdashed",
        "dotdotdotdashed",
    ]:
        if "width" in keywords:
            pkeywords["width"] = keywords["width"]

        p = biggles.Curve(x, y, type=type, **pkeywords)
    else:
        size = keywords.get("size", 1)
        p = biggles.Points(x, y, type=type, size=size, **pkeywords)

    label = keywords.get("label", None)
    if label is not None:
        p.label = label

    plt.add(p)
    pdict["p"] = p

    # note for log error bars, we start with original points since
    # the bars may extend above zero even for negative points
    if yerr is not None:
        if ylog:
            pdict["p_yerr"] = add_log_error_bars(
                plt, "y", xin, yin, yerr, yrng, **pkeywords
            )
        else:
            p_yerr = biggles.SymmetricErrorBarsY(x, y, yerr, **pkeywords)
            plt.add(p_yerr)
            pdict["p_yerr"] = p_yerr
    if xerr is not None:
        if xlog:
            pdict["p_xerr"] = add_log_error_bars(
                plt, "y", xin, yin, xerr, xrng, **pkeywords
            )
        else:
            p_xerr = biggles.SymmetricErrorBarsX(x, y, xerr, **pkeywords)
            plt.add(p_xerr)
            pdict["p_xerr"] = p_xerr

    plt.xlog = xlog
    plt.ylog = ylog

    if xrng is not None:
        plt.xrange = xrng
    if yrng is not None:
        plt.yrange = yrng

    if "xlabel" in keywords:
        plt.xlabel = keywords["xlabel"]
    if "ylabel" in keywords:
        plt.ylabel = keywords["ylabel"]

    if "title" in keywords:
        plt.title = keywords["title"]

    if "aspect_ratio" in keywords:
        plt.aspect_ratio = keywords["aspect_ratio"]

    if "file" in keywords:
        fname = keywords["file"]
        if fname.find(".eps") != -1 or fname.find(".ps") != -1:
            plt.write_eps(fname)
        else:
            xsize = keywords.get("xsize", 512)
            ysize = keywords.get("ysize", 512)
            plt.write_img(xsize, ysize, fname)
    else:
        if show:
            plt.show()

    pdict["plt"] = plt
    if "dict" in keywords:
        if keywords["dict"]:
            return pdict
    return plt


def compare_hist(
    data1, data2, names=None, dataset_names=None, nsig=10.0, **kw,
):
    """
    Compare the normalized histograms for the two data sets.  Make a grid of
    plots if the data are multi-dimensional

    parameters
    ----------
    data1: array
        a [N] or [N,dim] array
    data2: array
        a [M] or [M,dim] array
    names: list, optional
        Optional list of names for each dimension
    dataset_names: list, optional
        Optional list of names for each dataset
    nsig: float, optional
        Optional number of standard deviations to clip histograms,
        default 10.0
    """
    import biggles
    from numpy import newaxis
    from .stat import sigma_clip

    if len(data1.shape) == 1:
        data1 = data1[:, newaxis]
    if len(data2.shape) == 1:
        data2 = data2[:, newaxis]

    n1, d1 = data1.shape
    n2, d2 = data2.shape

    if d1 != d2:
        raise ValueError(
            "data must have same number of dims. " "got %d and %d" % (d1, d2)
        )

    if names is not None:
        if len(names) != d1:
            raise ValueError(
                "names must have len equal to number of dims. "
                " in data, got %d and %d" % (d1, len(names))
            )

    else:
        names = ["par%d" % i for i in range(d1)]
    if dataset_names is not None:
        if len(dataset_names) != 2:
            raise ValueError(
                "dataset_names must be len 2, " "got %d" % len(dataset_names)
            )
    else:
        dataset_names = ["dataset1", "dataset2"]

    if nsig is None:
        nsig = 100.0

    grid = Grid(d1)
    tab = biggles.Table(grid.nrow, grid.ncol)

    pkw = {}
    pkw.update(kw)
    for dkey in ["width", "height"]:
        pkw.pop(dkey, None)

    pkw["visible"] = False
    pkw["norm"] = 1
    if "nbin" not in pkw and 'binsize' not in pkw:
        get_binsize = True
    else:
        get_binsize = False

    for i in range(d1):

        mn1, st1, ind1 = sigma_clip(data1[:, i], nsig=nsig, get_indices=True)
        mn2, st2, ind2 = sigma_clip(data2[:, i], nsig=nsig, get_indices=True)
        if get_binsize:
            use_std = max(st1, st2)
            pkw["binsize"] = 0.2 * use_std

        plt = biggles.FramedPlot()
        plt.xlabel = names[i]

        pkw["color"] = "blue"
        h1 = biggles.make_histc(data1[ind1, i], **pkw)
        pkw["color"] = "red"
        h2 = biggles.make_histc(data2[ind2, i], **pkw)

        plt.add(h1, h2)

        if i == 0:
            h1.label = dataset_names[0]
            h2.label = dataset_names[1]
            key = biggles.PlotKey(0.9, 0.9, [h1, h2], halign="right")
            plt.add(key)

        row, col = grid(i)
        tab[row, col] = plt

    if "show" in kw:
        show = kw["show"]
    elif "visible" in kw:
        show = kw["visible"]
    else:
        show = True

    tab.aspect_ratio = kw.get("aspect_ratio", float(grid.nrow) / grid.ncol)
    if show:
        width = kw.get("width", 1000)
        height = kw.get("height", 1000)
        tab.show(width=width, height=height)

    return tab


def bhist(
    x, binsize=1.0, nbin=None, min=None, max=None, weights=None, plt=None,
    **keywords
):
    """
    This is now superceded by biggles.plot_hist

    Name:
        bhist
    Purpose:
        A wrapper to perform a quick histogram plot with biggles.  For anything
        more complex, it is better to use the object oriented interface.

    Calling Sequence:
        bhist(x,
              binsize=1.0,
              nbin=None,
              weights=None,
              gethist=False,
              getphist=False,
              min=None,
              max=None,
              xrange=None,
              yrange=None,
              color='black',
              xlabel=None,
              ylabel=None,
              label=None,
              title=None,
              file=None,
              xsize=None,
              ysize=None,
              aspect_ratio=None,
              show=True,
              plt=None)

    """

    import biggles

    norm = keywords.get("norm", None)

    hout = stat.histogram(
        x, binsize=binsize, nbin=nbin, min=min, max=max, weights=weights,
        more=True
    )

    if nbin is not None:
        binsize = hout["low"][1] - hout["low"][0]

    if plt is None:
        plt = biggles.FramedPlot()
        pltsent = False
    else:
        pltsent = True

    pkeywords = {}
    pkeywords.update(**keywords)
    if "color" in keywords:
        color = keywords["color"]
        if color is not None:
            pkeywords["color"] = color

    if weights is not None:
        hist = hout["whist"].copy()
    else:
        hist = hout["hist"].copy()

    if norm is not None:
        if norm is True:
            norm = 1.0
        hist = norm * hist.astype("f8") * (1.0 / hist.sum())

    xlog = keywords.get("xlog", False)
    ylog = keywords.get("ylog", False)
    xrng = keywords.get("xrange", None)
    yrng = keywords.get("yrange", None)

    if ylog:
        yrng, wy = get_log_plot_range(hist, input_range=yrng, get_good=True)
        plt.ylog = True
        miny = yrng[0]
    else:
        wy = np.arange(hist.size)
        miny = 0

        if yrng is None and not pltsent:
            yrng = [0, 1.1 * hist.max()]

    if len(wy) != len(x):
        hplot = np.zeros(hist.size, dtype="f8") + miny
        hplot[wy] = hist[wy]

    xvals = np.zeros(2 * hist.size + 2)
    yvals = np.zeros(2 * hist.size + 2)
    for i in range(xvals.size):
        if i == 0:
            xvals[i] = hout["low"][0]
            yvals[i] = miny
        elif i == (xvals.size - 1):
            xvals[i] = hout["high"][-1]
            yvals[i] = miny
        elif i == (xvals.size - 2):
            xvals[i] = hout["high"][-1]
            yvals[i] = hist[-1]
        else:
            iix = i // 2
            iiy = (i - 1) // 2
            xvals[i] = hout["low"][iix]
            yvals[i] = hist[iiy]

    if xlog:
        xrng, wx = get_log_plot_range(xvals, input_range=xrng, get_good=True)
        ph = biggles.Curve(xvals[wx], yvals[wx], **pkeywords)
        plt.xlog = True
    else:
        ph = biggles.Curve(xvals, yvals, **pkeywords)

    label = keywords.get("label", None)
    if label is not None:
        ph.label = label
    plt.add(ph)

    if xrng is not None:
        plt.xrange = xrng

    if yrng is not None:
        plt.yrange = yrng
    elif pltsent:
        # if two data sets are present, we should auto-adjust
        plt.yrange = None

    if "xlabel" in keywords:
        plt.xlabel = keywords["xlabel"]
    if "ylabel" in keywords:
        plt.ylabel = keywords["ylabel"]

    if "title" in keywords:
        plt.title = keywords["title"]

    if "aspect_ratio" in keywords:
        plt.aspect_ratio = keywords[" aspect_ratio"]

    if "file" in keywords:
        fname = keywords["file"]
        if fname.find(".eps") != -1 or fname.find(".ps"):
            plt.write_eps(fname)
        else:
            xsize = keywords.get("xsize", 512)
            ysize = keywords.get("ysize", 512)
            plt.write_image(xsize, ysize, fname)
    else:
        show = keywords.get("show", True)
        if show:
            plt.show()

    gethist = keywords.get("gethist", False)
    getphist = keywords.get("getphist", False)
    if gethist:
        return plt, hout
    elif getphist:
        return plt, ph
    else:
        return plt


def bhist_vs(data, *fields, **keys):
    """
    Plot data from an array with fields or dictionary.

    If only xfield is sent, a histogram of that field is the only plot.   If
    other arguments are sent, these name other fields in the input data to
    plot vs x in the same bins.

    parameters
    ----------
    data: numpy array with fields or dict
        Must have field names.  This can be a recarray or ordinary
        array with field names, or even a dict as long as the arrays
        all have the same length.
    field1, field2, ...:  string
        A set of fields names to plot.  The first is the "x" variable The data
        are binned according to this variable.  If only a single field is sent,
        a simple histogram is shown.  If multiple are given, the average as a
        function of x is shown in separate plots.

        Note if nperbin= is given, no histogram is shown unless binsize is
        *also* given (to be implemented).  In that case a histogram of "x" is
        also shown in light grey on the background.

    stype: string
        The type of statistic to plot
            if 'mean', plot the mean with errors as a function of the
                binning field.
            if 'sdev', plot the standard deviation as a function of the
                binning field.
    names: dict
        Dictionary with names for plotting, e.g. if a field name is 'x'
        this could be {'x':'new name for x'}.
    clip: bool
        If clip=true and weights are not sent for the histogram, the
        data are sigma clipped at 4 sigma with 4 iterations.
    extra keywords:
        Extra keywords for the histogram program and for plotting.
    """
    import biggles

    if len(fields) == 0:
        raise ValueError("Send at least one field name")

    fields = list(fields)

    stype = keys.get("stype", "mean")

    # names for the fields in the plots
    knames = keys.get("names", {})
    plabels = {}
    for k in fields:
        if k in knames:
            plabels[k] = knames[k]
        else:
            plabels[k] = k

    xfield = fields.pop(0)
    x = data[xfield]

    keys["more"] = True
    hout = stat.histogram(x, **keys)

    plots = []
    if "nperbin" not in keys:
        if "weights" in keys:
            hcurve = make_hist_curve(hout["low"], hout["high"], hout["whist"])
        else:
            hcurve = make_hist_curve(hout["low"], hout["high"], hout["hist"])

        hplt = biggles.FramedPlot()
        hplt.add(hcurve)
        hplt.xlabel = plabels[xfield]
        hplt.show()
        plots.append(hplt)

    nfields = len(fields)
    if nfields == 0:
        return

    nx = len(x)
    bindata = []

    nbin = hout["hist"].size
    (nonempty,) = np.where(hout["hist"] > 0)

    # now make a data set for each argument
    for f in fields:
        if len(data[f]) != nx:
            raise ValueError(
                "field %s is not same size as field %s" % (f, xfield)
            )
        d = {"name": f, "plabel": plabels[f]}
        if stype == "mean":
            d["mean"] = np.zeros(nbin)
            d["err"] = np.zeros(nbin)
        else:
            d["sdev"] = np.zeros(nbin)
        bindata.append(d)

    # get averages for each argument in each bin
    rev = hout["rev"]
    weights = keys.get("weights", None)
    # this only applies if weights are None
    clip = keys.get("clip", False)
    for i in range(nbin):
        if rev[i] != rev[i + 1]:
            w = rev[rev[i]: rev[i + 1]]

            for bd in bindata:
                ydata = data[bd["name"]][w]
                if weights is not None:
                    mn, err, sdev = stat.wmom(ydata, weights[w], sdev=True)
                else:
                    if clip:
                        mn, sdev = stat.sigma_clip(ydata)
                    else:
                        mn = ydata.mean()
                        sdev = ydata.std()
                    err = sdev / np.sqrt(w.size)
                if stype == "mean":
                    bd["mean"][i] = mn
                    bd["err"][i] = err
                else:
                    bd["sdev"][i] = sdev

    # now run through and make all the plots
    keys["xlabel"] = plabels[xfield]
    for bd in bindata:
        keys["ylabel"] = bd["plabel"]
        if "mean" in hout:
            xh = hout["mean"][nonempty]
        else:
            xh = hout["center"][nonempty]

        if stype == "mean":
            plt = bscatter(
                xh, bd["mean"][nonempty], yerr=bd["err"][nonempty], **keys
            )
        else:
            plt = bscatter(xh, bd["sdev"][nonempty], **keys)
        plots.append(plt)

    return plots


def make_hist_curve(xlow, xhigh, y, ymin=None, ymax=None, **keys):
    """
    Make a curve corresponding to the input edge locations and y values, that
    will draw the usual "box-like" histogram shape

    extra plotting keywords can be sent in the keys
    """
    import biggles

    xvals = np.zeros(2 * y.size + 2)
    yvals = np.zeros(2 * y.size + 2)
    for i in range(xvals.size):
        if i == 0:
            xvals[i] = xlow[0]
            yvals[i] = 0
        elif i == (xvals.size - 1):
            xvals[i] = xhigh[-1]
            yvals[i] = 0
        elif i == (xvals.size - 2):
            xvals[i] = xhigh[-1]
            yvals[i] = y[-1]
        else:
            iix = i // 2
            iiy = (i - 1) // 2
            xvals[i] = xlow[iix]
            yvals[i] = y[iiy]

    if ymin is not None or ymax is not None:
        if ymin is None:
            ymin = 0.0
        if ymax is None:
            ymax = yvals.max()
        yvals = numpy_util.arrscl(yvals, ymin, ymax)

    ph = biggles.Curve(xvals, yvals, **keys)
    return ph


def bwhiskers(
    xin,
    yin,
    uin,
    vin,
    scale=1.0,
    file=None,
    xsize=512,
    ysize=512,
    show=None,
    plt=None,
    **keys
):
    """
    Create a "whisker" plot from the input polarizations

    Polarizations are headless vectors, rotating as 2*theta, as found in weak
    lensing (e1,e2).

    The plot is made using biggles.

    parameters
    ----------
    x,y:
        The x,y positions for the midpoint of each whisker.
    u,v:
        The vectors to draw.  You can create these vectors from shears, or
        polarizations, using the polar2whisker function in this module.

    scale:
        A scale to multiply the length of each whisker.  Default 1.
    wkeyval:
        Make a key for the plot showing a whisker of this length.
        This value will get multiplied by scale.

    plt: optional
        A biggles plot object on which to draw.  If not sent, a new
        FramedPlot() instance is created.

    show: bool, optional
        Show the plot in a window.

        If this keyword is not sent, the plot will only be shown in a
        window if these conditions hold
            1) The file keyword is not sent.
            2) A plt object is not sent.  If a plot object is entered it is
            assumed you only want to add the whiskers to the existing object
            but not show it.

    file: string, optional
        A filename to write the image, should be .eps or .png
    xsize, ysize:
        Keywords indicating the size of a png file in x and y.  Defaults are
        each 512.


    **keys:
        keywords to be used when creating each whisker.  Each whisker is
        represented by a biggles Curve() object.

    return value
    ------------
    The biggles plot instance.

    """

    if show is None:
        if file is None and plt is None:
            show = True

    import biggles

    if plt is None:
        plt = biggles.FramedPlot()

    if "xrange" in keys:
        plt.xrange = keys["xrange"]
    if "yrange" in keys:
        plt.yrange = keys["yrange"]

    if "xlabel" in keys:
        plt.xlabel = keys["xlabel"]
    if "ylabel" in keys:
        plt.ylabel = keys["ylabel"]

    if "title" in keys:
        plt.title = keys["title"]

    if "aspect_ratio" in keys:
        plt.aspect_ratio = keys["aspect_ratio"]

    x = np.atleast_1d(xin)
    y = np.atleast_1d(yin)
    u = np.atleast_1d(uin)
    v = np.atleast_1d(vin)

    if x.size != y.size or x.size != u.size or x.size != v.size:
        raise ValueError(
            "Sizes don't match: "
            "%s %s %s %s\n" % (x.size, y.size, u.size, v.size)
        )

    if "wkeyval" in keys:
        minx = x.min()
        maxx = x.max()
        miny = y.min()
        maxy = y.max()

        px = minx + 0.05 * (maxx - minx)
        py = miny + 0.95 * (maxy - miny)

        kc = biggles.Curve(
            [px, px + keys["wkeyval"] * scale], [py, py], color="red"
        )
        kclab = biggles.PlotLabel(
            0.05, 0.925, "%.2g" % keys["wkeyval"], halign="left"
        )
        plt.add(kc, kclab)

    for i in range(x.size):
        # create the line to draw.
        xvals = x[i] + np.array([-u[i] / 2.0, u[i] / 2.0], dtype="f4") * scale
        yvals = y[i] + np.array([-v[i] / 2.0, v[i] / 2.0], dtype="f4") * scale

        c = biggles.Curve(xvals, yvals, **keys)
        plt.add(c)

    if file is not None:
        if file.find(".eps") != -1 or file.find(".ps") != -1:
            plt.write_eps(file)
        else:
            if xsize is None:
                xsize = 512
            if ysize is None:
                ysize = 512
            plt.write_image(xsize, ysize, file)
    else:
        if show:
            plt.show()

    return plt


def get_binned_whiskers(x, y, u, v, **keys):

    keys["more"] = True
    keys["rev"] = True
    hdict = stat.histogram2d(x, y, **keys)

    nbin = hdict["hist"].size
    rev = hdict["rev"]

    xcen = hdict["xcenter"]
    ycen = hdict["ycenter"]

    xmeans = np.zeros(nbin)
    ymeans = np.zeros(nbin)
    umeans = np.zeros(nbin)
    vmeans = np.zeros(nbin)

    i = 0
    for ix in range(len(xcen)):
        for iy in range(len(ycen)):

            xmeans[i] = xcen[ix]
            ymeans[i] = ycen[iy]

            if rev[i] != rev[i + 1]:
                w = rev[rev[i]: rev[i + 1]]

                umeans[i] = u[w].mean()
                vmeans[i] = v[w].mean()

            i += 1

    return xmeans, ymeans, umeans, vmeans


def get_grid(ntot):
    """
    Get a 2-d grid layout given the total number of plots

    returns nrow,ncol

    e.g.
       p1 p2

       p1 p2
       p3

       p1 p2
       p3 p4

       p1 p2 p3
       p4 p5

       etc.
    """
    from math import sqrt

    sq = int(sqrt(ntot))
    if ntot == sq * sq:
        return (sq, sq)
    elif ntot <= sq * (sq + 1):
        return (sq, sq + 1)
    else:
        return (sq + 1, sq + 1)


# matplotlib related routines
def setuplot(backend=None, params=None):
    """
    Import pyplot from matplotlib and return it.  Can specify a backend
    and some params.

    Specifying backend will only work if this is the first time importing
    pyplot, which is the primary reason for this convenience function.

    """
    import matplotlib

    if backend is not None:
        try:
            matplotlib.use(backend, warn=False)
        except Exception:
            pass

    from matplotlib import pyplot as plt

    if params is not None:
        plt.rcParams.update(params)

    return plt


def set_minor_ticks(ax, xloc=None, yloc=None):
    """
    By default minor ticks are not drawn in matplotlib.

    This function takes an axes instance (e.g. from axes or add_subplot) and
    adds minor ticks.  By default uses a simple algorithm to figure out where
    they should go based on the limits.  So best to call this program last
    right before saving the figure.

    Requires matplotlib
    """
    from math import log10, floor
    from matplotlib.ticker import MultipleLocator as ml  # noqa

    ranges = ax.axis()
    if xloc is None:
        r = floor(log10(ranges[1] - ranges[0]) - 1)
        xloc = 10.0 ** r
    if yloc is None:
        r = floor(log10(ranges[3] - ranges[2]) - 1)
        yloc = 10.0 ** r

    ax.xaxis.set_minor_locator(ml(xloc))
    ax.yaxis.set_minor_locator(ml(yloc))


def mwhiskers(
    plt, xin, yin, uin, vin, scale=1.0, linewidth=0.5, **plotting_keywords,
):
    """
    Name:
        mwhiskers
    Calling Sequence:
        whiskers(plt, x, y, u, v, scale=1, **plotting_keywords)
    Plotting Context:
        matplotlib.  Do make whiskers using biggles use the bwhiskers function

    Purpose:

        Using matplotlib, draw lines centered a the input x,y positions, with
        length
            sqrt(u**2 + v**2)
        and angle
            arctan(v,u)

    plt could be an axes instance
        ax = pyplot.subplot(1,2,1)
    or could it self be pyplot or pylab

    """

    x = np.atleast_1d(xin)
    y = np.atleast_1d(yin)
    u = np.atleast_1d(uin)
    v = np.atleast_1d(vin)

    if x.size != y.size or x.size != u.size or x.size != v.size:
        raise ValueError(
            "Sizes don't match: %s %s %s %s\n" % (x.size, y.size, u.size, v.size)  # noqa
        )

    for i in range(x.size):
        # create the line to draw.
        xvals = x[i] + np.array([-u[i] / 2.0, u[i] / 2.0], dtype="f4") * scale
        yvals = y[i] + np.array([-v[i] / 2.0, v[i] / 2.0], dtype="f4") * scale

        plt.plot(xvals, yvals, linewidth=linewidth, **plotting_keywords)


def polar2whisker(e1, e2, angle=False, degrees=False):

    etot = np.sqrt(e1 ** 2 + e2 ** 2)
    posangle = 0.5 * np.arctan2(e2, e1)

    if angle:
        if degrees:
            posangle *= 180.0 / np.pi
        return etot, posangle

    # x component of the "vector" version
    u = etot * np.cos(posangle)
    # y component of the "vector" version
    v = etot * np.sin(posangle)

    return u, v


def plotrand(x, y, frac=0.1, get_indices=False, **keys):
    """
    plot a random subset of the points
    """

    x = np.atleast_1d(x)
    y = np.atleast_1d(y)
    if x.size != y.size:
        raise ValueError("x,y must be same size")
    nrand = int(x.size * frac)
    if nrand < 1:
        nrand = 1
    elif nrand > x.size:
        nrand = x.size

    ind = random.random_indices(x.size, nrand, **keys)

    plt = bscatter(x[ind], y[ind], **keys)

    if get_indices:
        return plt, ind
    else:
        return plt


def transform_box(lonmin, lonmax, latmin, latmax, fromsys, tosys, **keys):
    """
    Name:
        transform_box
    Purpose:
        Transform the box specified in system1 to system2.  npts points will be
        used to represent each line segment, and these will be transformed
        to the new system.

    Calling Sequence:
        bx, by = transform_box(lonmin, lonmax, latmin, latmax, fromsys, tosys,
                               npts=40)

        plt = biggles.FramedPlot()
        plt.add( biggles.Curve(bx, by, color='red') )
        plt.show()
    """

    npts = keys.get("npts", 40)
    blon = np.zeros(4 * npts, dtype="f8")
    blat = np.zeros(4 * npts, dtype="f8")

    blon[0:npts] = lonmin
    blat[0:npts] = numpy_util.arrscl(np.arange(npts), latmin, latmax)

    blon[npts: 2 * npts] = numpy_util.arrscl(np.arange(npts), lonmin, lonmax)
    blat[npts: 2 * npts] = latmax

    blon[2 * npts: 3 * npts] = lonmax
    blat[2 * npts: 3 * npts] = numpy_util.arrscl(
        np.arange(npts), latmax, latmin
    )

    blon[3 * npts: 4 * npts] = numpy_util.arrscl(
        np.arange(npts), lonmax, lonmin
    )
    blat[3 * npts: 4 * npts] = latmin

    if fromsys == "eq" and tosys in ["survey", "sdss"]:
        return coords.eq2sdss(blon, blat)
    if fromsys in ["survey", "sdss"] and tosys == "eq":
        return coords.sdss2eq(blon, blat)
    else:
        raise ValueError("dont' yet support '%s' to '%s'" % (fromsys, tosys))


def asinh_scale(image, alpha=0.02, nonlinearity=8.0):
    image_out = image.copy().astype('f8')

    image_out[:] = np.arcsinh(alpha * nonlinearity * image) / nonlinearity

    return image_out


def image_norm(image, reverse=False):
    image_out = image.copy().astype('f8')
    image_out /= image_out.max()

    if reverse:
        image_out = 1.0 - image_out

    return image_out


def get_log_plot_range_xy(
    x,
    y,
    xerr=None,
    yerr=None,
    xlog=False,
    ylog=False,
    xrng=None,
    yrng=None,
    get_good=False,
):
    # For log, Don't plot points less than zero
    w = None
    if xlog and ylog:
        xrng = get_log_plot_range(x, err=xerr, input_range=xrng)
        yrng = get_log_plot_range(y, err=yerr, input_range=yrng)
        (w,) = np.where((x > xrng[0]) & (y > yrng[0]))
    elif xlog:
        xrng = get_log_plot_range(x, err=xerr, input_range=xrng)
        (w,) = np.where(x > xrng[0])
    elif ylog:
        yrng = get_log_plot_range(y, err=yerr, input_range=yrng)
        (w,) = np.where(y > yrng[0])
    else:
        w = np.arange(x.size)

    if get_good:
        return xrng, yrng, w
    else:
        return xrng, yrng


def get_log_plot_range(x, err=None, input_range=None, get_good=False):
    if input_range is not None:
        if len(input_range) < 2:
            raise ValueError("expected [xmin,xmax] for input range")
        if input_range[0] <= 0.0 or input_range[1] <= 0.0:
            raise ValueError(
                "cannot use plot range < 0 for log plots, got [%s,%s]"
                % tuple(input_range)
            )
        if get_good:
            w, = np.where((x >= input_range[0]) & (x <= input_range[1]))
            return input_range, w
        else:
            return input_range

    w, = np.where(x > 0.0)
    if w.size == 0:
        raise ValueError("No values are greater than zero in log plot")

    minval = min(x[w])
    if err is not None:
        w2, = np.where((x[w] - err[w]) > 0)
        if w2.size > 0:
            minval2 = min(x[w[w2]] - err[w[w2]])
            minval = min(minval, minval2)

        maxval = max(x + err)
    else:
        maxval = max(x)

    minval *= 0.5
    maxval *= 2

    if get_good:
        return [minval, maxval], w
    else:
        return [minval, maxval]


def add_log_error_bars(plt, type, x, y, err, prange, **pkeywords):
    import biggles

    if type == "x":
        low = x - err
        high = x + err
    else:
        low = y - err
        high = y + err

    w, = np.where(high > 0)
    if w.size > 0:
        high = high[w]

        # outside range to avoid seeing hat
        low = low[w].clip(0.5 * prange[0], 2.0 * max(max(high), prange[1]))

        if type == "x":
            p = biggles.ErrorBarsX(y[w], low, high, **pkeywords)
        else:
            p = biggles.ErrorBarsY(x[w], low, high, **pkeywords)
        plt.add(p)

        return p


def fake_points(
    symbols, labels, colors=None, sizes=None, x=9.99e12, y=9.99e12,
):
    """
    fake points for use with plot legends when the points object is not
    available

    Add these to a biggles.PlotKey object
    """
    from biggles import Point

    if len(symbols) != len(labels):
        raise ValueError("symbols must be same len as labels")
    if colors is not None:
        if len(colors) != len(labels):
            raise ValueError("colors must be same len as labels")
    if sizes is not None:
        if len(sizes) != len(labels):
            raise ValueError("sizes must be same len as labels")

    points = []
    for i in range(len(labels)):

        keys = {"type": symbols[i]}

        if colors is not None:
            if colors[i] is not None:
                keys["color"] = colors[i]

        if sizes is not None:
            keys["size"] = sizes[i]

        p = Point(x, y, **keys)
        p.label = labels[i]

        points.append(p)
    return points


def fake_filled_circles(labels, **keys):
    """

    When using a dot as plot symbol, the PlotKey is not useful because the dot
    is too small to see.  This creates a filled circle point in specified
    location (should be off the plot region) and returns the Point objects in a
    list with the specified labels and possibly colors.

    Then add these to your PlotKey

    """

    return fake_points(["filled circle"] * len(labels), labels, **keys)


class Grid(object):
    """
    represent plots in a grid.  The grid is chosen
    based on the number of plots

    example
    -------
    grid=Grid(n)

    for i in range(n):
        row,col = grid(i)

        # equivalently grid.get_rowcol(i)

        plot_table[row,col] = plot(...)
    """

    def __init__(self, nplot):
        self.set_grid(nplot)

    def set_grid(self, nplot):
        """
        set the grid given the number of plots
        """
        from math import sqrt

        self.nplot = nplot

        # first check some special cases
        if nplot == 8:
            self.nrow, self.ncol = 2, 4
        else:

            sq = int(sqrt(nplot))
            if nplot == sq * sq:
                self.nrow, self.ncol = sq, sq
            elif nplot <= sq * (sq + 1):
                self.nrow, self.ncol = sq, sq + 1
            else:
                self.nrow, self.ncol = sq + 1, sq + 1

        self.nplot_tot = self.nrow * self.ncol

    def get_rowcol(self, index):
        """
        get the grid position given the number of plots

        move along columns first

        parameters
        ----------
        index: int
            Index in the grid

        example
        -------
        nplot=7
        grid=Grid(nplot)
        arr=biggles.FramedArray(grid.nrow, grid.ncol)

        for i in range(nplot):
            row,col=grid.get_rowcol(nplot, i)
            arr[row,col].add( ... )
        """

        imax = self.nplot_tot - 1
        if index > imax:
            raise ValueError("index too large %d > %d" % (index, imax))

        row = index // self.ncol
        col = index % self.ncol

        return row, col

    def __call__(self, index):
        return self.get_rowcol(index)
