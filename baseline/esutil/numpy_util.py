"""
Utilities for using and manipulating numerical python arrays (NumPy).

    where1(logical):
        A wrapper for where for 1-d arrays.  It is the equivalent of
            w, = where(logical expression)
        E.g.
            w=where1( (x > 0.1) & (x < 1.5) )

    ahelp(array, recurse=False, pretty=True)
        Print out a formatted description of the input array.   If the array
        has fields, individual descriptions are printed for each field.  This
        is designed to be similar to help, struct, /str in IDL.


    aprint(array, type='table', page=False, nlines=ALL, fields=ALL, file=None)
        Print fields from the array in columns, optionally send to a pager or
        file.  If type='fancy', more keywords are available.

    arrscl(arr, minval, maxval, arrmin=None, arrmax=None)
        Rescale the range of an array to be between minval and maxval.

    make_xy_grid(npoints, xrange, yrange)
        Create a grid of x-y points, returning x and y as numpy arrays.

    combine_arrlist(list_of_arrays, keep=False)
        Combine the list of arrays into one big array.  Arrays must all have
        the same datatype.

    combine_fields(arrlist)
        Combine the field names and data from multiple arrays.  The arrays must
        be the same size and have disjoint sets of fields

    copy_fields(array1, array2)
        Copy common fields from one numpy array to another.  The name
        matching is case senitive.

    extract_fields(array, names, strict=True)

        Extract a set of fields from a numpy array.  A new array is returned
        with the requested fields and data copied in.  The name matching is
        case sensitive.

    remove_fields(array, names)
        Remove a set of fields from the array.  A new array is returned
        with the leftover fields and data copied in.  The name matching
        is case sensitive.

    add_fields(arr, dtype_or_descr, defaults=None)
        Create a new array with fields from the input array and new
        fields as indicated by the input numpy type descriptor.
        The data are copied from the original array.


    reorder_fields(arr, ordered_names, strict=True)
        Re-order the fields according the the listed names.  Names not in the
        list are put at the end.


    copy_fields_by_name(arr, names, values)
        Copy values into a numpy array by field name.


    split_fields(array, fields=None, getnames=False)

         Get a tuple of references to the individual fields in a structured
         array (aka recarray).  If fields= is sent, just return those fields.
         If getnames=True, return a tuple of the names extracted also.



    compare_arrays(array1, array2, ignore_missing=True, verbose=False)
        Compare the values field-by-field in two sets of numpy arrays or
        recarrays.  Return true if the data match.

    replicate(value, num, dtype=None)
        Create an array with every value set to the input value.

    is_big_endian(array)
        Return True if array is big endian.  Note strings are neither big
        or little endian.  The input must be a simple numpy array, not
        an array with fields.

    is_little_endian(array)
        Return True if array is little endian. Note strings are neither big
        or little endian.  The input must be a simple numpy array, not
        an array with fields.



    to_big_endian(array, inplace=False, keep_dtype=False)
        Convert an array to big endian byte order, updating the dtype to
        reflect this.  The array can have fields.
    to_little_endian(array, inplace=False, keep_dtype=False)
        Convert an array to little endian byte order, updating the dtype to
        reflect this.  The array can have fields.
    to_native(array, inplace=False, keep_dtype=False)
        Convert an array to native byteorder, updating the dtype to
        reflect this.  The array can have fields.

    byteswap(array, inplace=False, keep_dtype=False)
        Chance the byte order of an array, updating the dtype to reflect this.
        The array can have fields.   This is a wrapper for the .byteswap()
        method which does not update the dtype to reflect the new byte
        ordering.

    unique(arr, values=False)
        Return indices of unique elements of a numpy array, or optionally
        the unique values.  This is not order preserving.  This is currently
        implemented in a slow fashion, should be updated.

    rem_dup(arr, flag, values=False)
        Return indices of unique values of an array, selecting the one (when
        duplicates exist) with the largest value of flag.  Optionally returns
        the values in the array as well as their indices.

    match(arr1, arr2)
        match two numpy arrays.  Return the indices of the matches or [-1] if
        no matches are found.  This means arr1[ind1] == arr2[ind2] is true for
        all corresponding pairs. Arrays must contain only unique elements

    strmatch(arr, regex)
        Match the string array to the input regular expression.  Returns
        a boolean array.

    match_multi(arr1, arr2)
        Match two numpy integer arrays, one of which may be non-unique

    dict2array(dict, sort=False, keys=None)
        Convert a dictionary to a numpy array.  Works for simple typs such as
        strings, integers, floating.

    dictlist2array(dict, sort=False, keys=None)
        Convert a list of dictionaries to a structured numpy array.  Works
        for simple typs such as strings, integers, floats.


    splitarray(nper, array)
        Split up an array into chunks of at least a given size.  Return a
        list of these subarrays.  The ordering is perserved.

    between(arr, lowval, highval, type='[)')
        test values of an array are between the specified values

    outside(arr, lowval, highval, type=')(')
        test values of an array are outside the specified values

    select_percentile(x, perc, get_ranges=False, **keys)
        select data in the given percentile(s)

"""
from __future__ import print_function

import os
from sys import stdout
import copy
import pydoc
import numpy as np

from . import misc as eu_misc


if np.lib.NumpyVersion(np.__version__) < "1.28.0":
    np_vers = 1
else:
    np_vers = 2


def where1(conditional_expression):
    """
    Name:
        where1

    Calling Sequence:
        w = where1(conditional_expression)

    Purpose:
        A wrapper for np.where() for 1-d arrays.  It is the equivalent of
            w, = where(logical expression)

        E.g.
            w=where1( (x > 0.1) & (x < 1.5) )
            print x[w]
    """
    (w,) = np.where(conditional_expression)
    return w


def ahelp(array_in, recurse=False, pretty=True, index=0, page=False):
    """
    Name:
      ahelp()

    Purpose:
        Print out a formatted description of the input array.   If the array
        has fields, individual descriptions are printed for each field.  This
        is designed to be similar to help, struct, /str in IDL.

    Calling Sequence:
        ahelp(array, recurse=False, pretty=True, page=False)

    Inputs:
        array: A numpy array.

    Optional Inputs:
        recurse: for sub-arrays with fields, print out a full description.
            default is False.
        pretty:  If True, split field descriptions onto multiple lines if
            the name is longer than 15 characters.  Nicer for the eye, but
            harder for a machine to parse.  Also, strings are surrounded
            by quotes 'string'.  Default is True.
        page: If True, run the output through a pager.

    Example:
        ahelp(a)
        size: 1147506  nfields: 27  type: records
          run                >i4  1933
          rerun              |S3  '157'
          camcol             >i2  1
          field              >i4  11
          mjd                >i4  51886
          tai                >f8  array[5]
          ra                 >f8  102.905870701
          dec                >f8  -1.05070432844

    Revision History:
        Created: 2010-04-05, Erin Sheldon, BNL

    """

    # make sure the data can be viewed as a
    # numpy ndarray.  pyfits in particular is
    # a problem case that we must get a view of
    # as ndarray.
    if not hasattr(array_in, "view"):
        raise ValueError("data must be an array or have the .view method")

    array = array_in.view(np.ndarray)

    names = array.dtype.names
    descr = array.dtype.descr

    topformat = "size: %s  nfields: %s  type: %s\n"

    lines = []
    if names is None:
        type = descr[0][1]
        nfields = 0
        line = topformat % (array.size, nfields, type)
        lines.append(line)

    else:
        line = topformat % (array.size, len(names), "records")
        lines.append(line)
        flines = _get_field_info(
            array, recurse=recurse, pretty=pretty, index=index
        )
        lines += flines

    lines = "\n".join(lines)

    if not page:
        stdout.write(lines)
        stdout.write("\n")
    else:
        import pydoc

        pydoc.pager(lines)


def _get_field_info(array, nspace=2, recurse=False, pretty=True, index=0):
    names = array.dtype.names
    if names is None:
        raise ValueError("array has no fields")

    if len(array.shape) == 0:
        is_scalar = True
    else:
        is_scalar = False

    lines = []
    spacing = " " * nspace

    nname = 15
    ntype = 6

    # this format makes something machine readable
    format = spacing + "%-" + str(nname) + "s %" + str(ntype) + "s  %s"
    # this one is prettier since lines wrap after long names
    pformat = (
        spacing + "%-" + str(nname) + "s\n %" + str(nspace + nname + ntype) + "s  %s"  # noqa
    )

    max_pretty_slen = 25

    for i in range(len(names)):

        hasfields = False

        n = names[i]

        type = array.dtype.descr[i][1]

        if is_scalar:
            fdata = array[n]
        else:
            fdata = array[n][index]

        if np.isscalar(fdata):
            if np_vers == 2:
                string_types = (np.str_, np.bytes_)
            else:
                string_types = (np.str_, np.string_)
            if isinstance(fdata, string_types):
                d = fdata

                # if pretty printing, reduce string lengths
                if pretty and len(d) > max_pretty_slen:
                    d = fdata[0:max_pretty_slen]
                    # d = "'" + d +"'"
                    d = "'%s'..." % d
                    # d = d+'...'
                else:
                    if pretty:
                        d = "'%s'" % d
            else:
                d = fdata
        else:
            shape_str = ",".join(str(s) for s in fdata.shape)
            if fdata.dtype.names is not None:
                type = "rec[%s]" % shape_str
                d = ""
                hasfields = True
            else:
                d = "array[%s]" % shape_str

        if pretty and len(n) > 15:
            tline = pformat % (n, type, d)
        else:
            tline = format % (n, type, d)
        lines.append(tline)

        if hasfields and recurse:
            # new_nspace = nspace + nname + 1 + ntype + 2
            new_nspace = nspace + 4
            morelines = _get_field_info(
                array[n], nspace=new_nspace, recurse=recurse
            )
            lines += morelines

    return lines


def aprint(array, **keys):
    """
    Name:
      aprint

    Purpose:

        Print out the rows and columns of the array with fields, aka structure
        or records.  The focus is on visualizing the data rather than speed or
        efficient file output.

        Optionally results can be sent to a pager or file.

        By default, the columns are printed in a simple, machine readable
        format, but using the type= keyword you can print in other styles.

        Subsets of the fields can be chosen.  Also, printing can be
        restricted to the top N lines.

        If not type='fancy', the user has more control over the format.

    Calling Sequence:
        aprint(array, **keywords)

    Inputs:
        array: A numpy array with fields.

    Keywords:
        type:
            Default: 'table'.  Print simple columns.
            If 'fancy' print with a visually appealing format.
                The delim keyword is ignored and arrays are always bracketed.

            If 'latex' print a latex table such that the
                delimiter is '&' and the lines end in latex
                continuations.  Paging is turned off.

                Currently this just prints the data part of the
                table; in the future, the full header and footer
                will be added with control.
            If 'latex-deluxe' this is currently a synonym for 'latex'

        file:
            Send results to this file rather than standard output.
        nlines:
            Print only the top N lines.  Default is to print all.
        fields or columns:
            Only print a subset of the fields.


        header:
                Write a header.  If the input is a string, it is written as the
                header followed by a new line.  If it is boolean True, a header
                is generated with the column names.  For fancy printing there
                is always a header.

        trailer:
            Text to print after the array data.

        format:
            A format string to apply to every argument.  E.g. format='%15s'
            Since every arg gets the same format, only %s type formats should
            be used unless the types are homogeneous.
        delim or sep:
            The delimiter between fields.
        array_delim:
            The delimiter between sub-array elements.
        bracket_arrays:

            Put brackets in place to delineate dimensional boundies.  e.g.
            {{a,b,c},{d,e,f}}

            Notes: if type='fancy', brackets are always used.
                   If type='fancy', the default array_delim is ',' instead
                   of ' '


        altnames:
            An alternative list of names for each field when printing a header
            of field names.  There must be an entry for each field to be
            printed.

        nformat:
            A Format to apply to the names.  By default, the same format used
            for the arguments is tried.  If formatting fails, a simple '%s' is
            used for the names.

        title:
            A title to place above the printout when using fancy printing.

    Examples:

        # simple column printing as CSV
        >>> aprint(arr, delim=',')
        1383.91540527,200.237106323,0.266301675406
        802.613586426,249.544662476,0.921706936925
        968.170288086,206.072280884,0.702349236707
        ...

        # Add some simple formatting and header with field
        # names
        >>> aprint(arr, header=True,format='%15s')
                      x               y          sigma0
          1383.91540527   200.237106323  0.266301675406
          802.613586426   249.544662476  0.921706936925
          968.170288086   206.072280884  0.702349236707
          1392.78076172   203.387145996  0.140207546039
          286.160888672   203.858230591  0.662831780399
          1399.84436035   205.773635864  0.131057799416
           730.80657959   214.152862549  0.872058593857
          379.738677979   207.252319336  0.626150666221
          1408.07873535   208.487594604  0.135600258469
          1729.27612305   209.312911987  0.626632451812

        # fancy printing with a title
        >>> aprint(arr, title='My Data',type='fancy')
                            My Data
               x       |       y       |     sigma0
        ---------------+---------------+---------------
         1383.91540527 | 200.237106323 | 0.266301675406
         802.613586426 | 249.544662476 | 0.921706936925
         968.170288086 | 206.072280884 | 0.702349236707
         ...


    """

    if "sep" in keys:
        if "delim" not in keys:
            keys["delim"] = keys["sep"]

    aw = ArrayWriter(**keys)
    aw.write(array, **keys)

    return


def arrscl(arr, minval, maxval, arrmin=None, arrmax=None, dtype="f8"):
    """
    NAME:
      arrscl()

    CALLING SEQUENCE:
      newarr = arrscl(arr, minval, maxval, arrmin=None, arrmax=None,
                      dtype='f8')

    PURPOSE:
      Rescale the range of an array to be between minval and maxval.

    INPUTS:
      arr: An array
      minval: The minimum value for the output array
      maxval: The maximum value for the output array
    OPTIONAL INPUTS:
        dtype: Default is double, 'f8'

    OPTIONAL OUTPUTS:
      arrmin=None: An number to use for the min range of the input array. By
        default it is taken from the input array.
      arrmax=None: An number to use for the max range of the input array. By
        default it is taken from the input array.

      * arrmin,arrmax are useful if you know the array is a sample of a
        particular range, for example of they are random numbers drawn
        from [0,1] you would send arrmin=0., arrmax=1.

    OUTPUTS:
      The new array.

    REVISION HISTORY:
      Converted from IDL: 2006-10-23. Erin Sheldon, NYU

    """

    output = np.array(arr, dtype=dtype, copy=True)

    if arrmin is None:
        arrmin = output.min()
    if arrmax is None:
        arrmax = output.max()

    if output.size == 1:
        return output

    if arrmin == arrmax:
        raise ValueError("arrmin must not equal arrmax")

    a = (maxval - minval) / (arrmax - arrmin)
    b = (arrmax * minval - arrmin * maxval) / (arrmax - arrmin)

    # in place
    np.multiply(output, a, output)
    np.add(output, b, output)

    return output


def make_xy_grid(n, xrang, yrang):
    """
    NAME:
        make_xy_grid()

    CALLING SEQUENCE:
        x,y = make_xy_grid(npoints, xrange, yrange)

    PURPOSE
        Create a grid of x-y points, returning x and y as numpy arrays.

    REVISION HISTORY:
        Created: mid 2009, Erin Sheldon, BNL
    """

    rng = np.arange(n, dtype="f8")
    ones = np.ones(n, dtype="f8")

    x = arrscl(rng, xrang[0], xrang[1])
    y = arrscl(rng, yrang[0], yrang[1])

    x = np.outer(x, ones)
    y = np.outer(ones, y)
    x = x.flatten(1)
    y = y.flatten(1)

    return x, y


def combine_arrlist(arrlist, keep=False):
    """
    NAME:
        combine_arrlist

    CALLING SEQUENCE:
        arr = combine_arrlist(list_of_arrays, keep=False)

    PURPOSE:
        Combined the list of arrays into one big array.  The arrays must all
        be the same data type.

    KEYWORDS:
        keep:  By default the elements are deleted as they are added to the
            big array.  Turn this off with keep=True

    REVISION HISTORY:
        Inspired by combine_ptrlist from SDSSIDL.  2007.  Erin Sheldon, BNL
    """
    if not isinstance(arrlist, list):
        raise RuntimeError("Input must be a list of arrays")

    if len(arrlist) == 0:
        return np.zeros(0, dtype="i8")

    if len(arrlist) == 1:
        return arrlist[0]

    isarray = isinstance(arrlist[0], np.ndarray)
    isrec = isinstance(arrlist[0], np.recarray)

    if not isarray:
        mess = "Input must be a list of arrays or recarrays. Found %s" % type(
            arrlist[0]
        )
        raise RuntimeError(mess)

    # loop and get total number of entries
    counts = 0
    for data in arrlist:
        counts = counts + data.size

    output = np.zeros(counts, dtype=arrlist[0].dtype)
    if isrec:
        output = output.view(np.recarray)

    beg = 0
    if keep:
        for data in arrlist:
            num = data.size
            output[beg: beg + num] = data
            beg = beg + num
    else:
        while len(arrlist) > 0:
            data = arrlist.pop(0)
            num = data.size
            output[beg: beg + num] = data
            del data
            beg = beg + num

    return output


def combine_fields(arrlist):
    """
    Combine the field names and data from multiple arrays.  The arrays must be
    the same size and have disjoint sets of fields

    Parameters
    ----------
    arr1: ndarray
        An array with fields
    arr2: ndarray
        An array with fields

    Returns
    -------
    combined array
    """
    if len(arrlist) == 0:
        raise ValueError('send at least one array')

    shape = arrlist[0].shape
    descr = []
    for arr in arrlist:
        if arr.shape != shape:
            raise ValueError('not all arrays are the same size')
        descr += arr.dtype.descr

    new_array = np.zeros(shape, dtype=descr)

    for arr in arrlist:
        copy_fields(arr, new_array)

    return new_array


def copy_fields(arr1, arr2):
    """
    NAME:
        copy_fields

    CALLING SEQUENCE:
        copy_fields(array1, array2)

    PURPOSE:
        Copy common fields from one array1 to array2.  The name
        matching is case senitive.

    REVISION HISTORY:
        Inspired by struct_assign in IDL.  2007 Erin Sheldon, BNL.

    """
    if arr1.size != arr2.size:
        raise ValueError("arr1 and arr2 must be the same size")

    names1 = arr1.dtype.names
    names2 = arr2.dtype.names

    for name in names1:
        if name in names2:
            arr2[name] = arr1[name]


def extract_fields(arr, keepnames, strict=True):
    """
    NAME:
        extract_fields

    CALLING SEQUENCE:
        newarr = extract_fields(arr, names, strict=True)

    PURPOSE:
        Extract a set of fields from a numpy array.  A new array is returned
        with the requested fields and data copied in.  The name matching is
        case sensitive.

        The order of the fields is the order in the original array.

    Inputs:
        arr: A numpy structure, or array with fields.
        names: The subset of names to extract.

    Optional Inputs:
        strict:
            If True, requested names that are not found in the input array will
            raise a ValueError.  Default is True.

    REVISION HISTORY:
        Created 2007, Erin Sheldon, NYU.
        Added strict keyword, 2010-04-07, Erin Sheldon, BNL
    """
    if not isinstance(keepnames, (tuple, list, np.ndarray)):
        keepnames = [keepnames]

    arrnames = list(arr.dtype.names)

    if strict:
        for name in keepnames:
            if name not in arrnames:
                raise ValueError("field not found: %s" % name)

    new_descr = []
    for d in arr.dtype.descr:
        name = d[0]
        if name in keepnames:
            new_descr.append(d)

    if len(new_descr) == 0:
        raise ValueError("No fields kept")

    shape = arr.shape
    new_arr = np.zeros(shape, dtype=new_descr)
    copy_fields(arr, new_arr)
    return new_arr


def remove_fields(arr, rmnames):
    """
    NAME:
        remove_fields

    CALLING SEQUENCE:
        newarr = remove_fields(arr, names)

    PURPOSE:
        Remove a set of fields from the array.  A new array is returned
        with the leftover fields and data copied in.  The name matching
        is case sensitive.

    REVISION HISTORY:
        Created 2007, Erin Sheldon, NYU.
    """

    if not isinstance(rmnames, list):
        rmnames = [rmnames]

    descr = arr.dtype.descr
    new_descr = []
    for d in descr:
        name = d[0]
        if name not in rmnames:
            new_descr.append(d)

    if len(new_descr) == 0:
        raise ValueError("Error: All fields would be removed")

    shape = arr.shape
    new_arr = np.zeros(shape, dtype=new_descr)
    copy_fields(arr, new_arr)
    return new_arr


def add_fields(arr, add_dtype_or_descr, defaults=None):
    """
    NAME:
        add_fields

    CALLING SEQUENCE:
        newarr = add_fields(arr, dtype_or_descr, defaults=None)

    PURPOSE:
        Create a new array with fields from the input array and new
        fields as indicated by the input numpy dtype or descr object.
        Return a new array with the data copied from the original array.

    KEYWORDS:
        defaults:  By default the new fields are zeroed.  Send this keyword
            to add default values to the fields.  Must be the same length
            as the input type descriptor.

    REVISION HISTORY:
        Created 2007, Erin Sheldon, NYU.


    """
    # the descr is a list of tuples
    old_descr = arr.dtype.descr
    add_dtype = np.dtype(add_dtype_or_descr)
    add_descr = add_dtype.descr

    new_descr = copy.deepcopy(old_descr)

    old_names = list(arr.dtype.names)
    for d in add_descr:
        name = d[0]
        if old_names.count(name) == 0:
            new_descr.append(d)
        else:
            raise ValueError("field " + str(name) + " already exists")

    shape = arr.shape
    new_arr = np.zeros(shape, dtype=new_descr)

    copy_fields(arr, new_arr)

    # See if the user has indicated default values for the new fields
    if defaults is not None:
        if not isinstance(defaults, list):
            defaults = [defaults]
        if len(defaults) != len(add_descr):
            raise ValueError("defaults must be same length as new dtype")
        copy_fields_by_name(new_arr, list(add_dtype.names), defaults)

    return new_arr


def reorder_fields(arr, ordered_names, strict=True):
    """
    NAME:
        reorder_fields

    CALLING SEQUENCE:
        newarr = reorder_fields(arr, ordered_names, strict=True)

    PURPOSE:
        Re-order the fields according the the listed names.  Names
        not in the list are put at the end.


    Inputs:
        arr: A numpy structure, or array with fields.
        ordered_names: The ordered subset of names.  These are placed in order
            at the front.  Non-matching names are placed at the back.

    Optional Inputs:
        strict:
            If True, requested names that are not found in the input array will
            raise a ValueError.  Default is True.

    REVISION HISTORY:
        Created 2007, Erin Sheldon, NYU.
        Added strict keyword, 2010-04-07, Erin Sheldon, BNL
    """

    if not isinstance(ordered_names, (tuple, list, np.ndarray)):
        ordered_names = [ordered_names]

    # this is so we can get indices
    original_names = np.array(arr.dtype.names)
    original_descr = arr.dtype.descr

    new_names = []
    new_descr = []

    for name in ordered_names:
        (w,) = np.where(original_names == name)
        if w.size != 0:
            new_names.append(name)
            new_descr.append(original_descr[w[0]])
        else:
            if strict:
                raise ValueError("field not found: '%s'" % name)

    # now put in the remaining names in original order at the back
    for i in range(original_names.size):
        name = original_names[i]
        if name not in new_names:
            new_names.append(name)
            new_descr.append(original_descr[i])

    shape = arr.shape
    new_arr = np.zeros(shape, dtype=new_descr)
    copy_fields(arr, new_arr)
    return new_arr


def copy_fields_by_name(arr, names, vals):
    """
    NAME:
        copy_fields_by_name

    CALLING SEQUENCE:
        copy_fields_by_name(arr, names, values)

    PURPOSE:
        Copy values into a numpy array by field name.

    INPUTS:
        names:  Field names to be copied, scalar or sequence.
        values: The values to be copied into each field.  These values
            can be in a sequence of the same length as names.   They
            must either be scalars or their shape must match the underlying
            structure of the field.

    EXAMPLES:
        names=['x','flux', 'source']
        values=[x_array, flux_array, name_scalar]
        copy_fields_by_name(arr, names, values)

    REVISION HISTORY:
        Created 2007, Erin Sheldon, NYU.

    """
    if not isinstance(names, (list, np.ndarray)):
        names = [names]

    if not isinstance(vals, (list, np.ndarray)):
        vals = [vals]

    if len(names) != len(vals):
        raise ValueError("Length of names and values must be the same")

    arrnames = list(arr.dtype.names)
    for name, val in zip(names, vals):
        if name in arrnames:
            arr[name] = val


def split_fields(data, fields=None, getnames=False):
    """
    Name:
        split_fields

    Calling Sequence:
        The standard calling sequence is:
            field_tuple = split_fields(data, fields=)
            f1,f2,f3,.. = split_fields(data, fields=)

        You can also return a list of the extracted names
            field_tuple, names = split_fields(data, fields=, getnames=True)

    Purpose:
        Get a tuple of references to the individual fields in a structured
        array (aka recarray).  If fields= is sent, just return those
        fields.  If getnames=True, return a tuple of the names extracted
        also.

        If you want to extract a set of fields into a new structured array
        by copying the data, see esutil.numpy_util.extract_fields

    Inputs:
        data: An array with fields.  Can be a normal numpy array with fields
            or the recarray or another subclass.
    Optional Inputs:
        fields: A list of fields to extract. Default is to extract all.
        getnames:  If True, return a tuple of (field_tuple, names)

    """

    outlist = []
    allfields = data.dtype.fields

    if allfields is None:
        if fields is not None:
            raise ValueError("Could not extract fields: data has " "no fields")
        return (data,)

    if fields is None:
        fields = allfields
    else:
        if isinstance(fields, str):
            fields = [fields]

    for field in fields:
        if field not in allfields:
            raise ValueError("Field not found: '%s'" % field)
        outlist.append(data[field])

    output = tuple(outlist)
    if getnames:
        return output, fields
    else:
        return output


def compare_arrays(arr1, arr2, verbose=False, ignore_missing=True):
    """
    Name:
        compare_arrays

    Calling Sequence:
        boolval=compare_arrays(array1, array2, ignore_missing=True,
                               verbose=False)

    Purpose:
        Compare the values field-by-field in two sets of numpy arrays or
        recarrays.  Return true if the data match.

    Inputs:
        array1, array2: Two arrays with fields.

    Keywords:
        ignore_missing: Default True.  Ignore fields not found in both
            arrays.
        verbose:  By default the program is silent.  set verbose=True to
            print info about each field.

    Outputs:
        True if the matching criteria are met, False if not.

    Revision History:
        Created 2007, Erin Sheldon, NYU.
        Added ignore_missing keyword.  2009-11-02, Erin Sheldon, BNL

    """

    nfail = 0

    # If requested, check the arrays have exactly the same names.
    if not ignore_missing:
        # make sure the name lists match
        if verbose:
            stdout.write("    Matching names........")

        for n in arr1.dtype.names:
            if n not in arr2.dtype.names:
                nfail += 1
                if verbose:
                    stdout.write(
                        "\n        Field '%s' found only in " "array1" % n
                    )
        for n in arr2.dtype.names:
            if n not in arr1.dtype.names:
                nfail += 1
                if verbose:
                    stdout.write(
                        "\n        Field '%s' found only in " "array2" % n
                    )

        if verbose:
            if nfail == 0:
                stdout.write("OK")
            stdout.write("\n")

    else:
        if verbose:
            stdout.write("    Not checking that all fields names match\n")

    # Compare the data for matchine names
    for n in arr1.dtype.names:
        if n in arr2.dtype.names:
            # the field was found, let's see if the data match
            if verbose:
                stdout.write("    testing field: '%s'\n" % n)
                stdout.write("        shape...........")
            if arr2[n].shape != arr1[n].shape:
                nfail += 1
                if verbose:
                    stdout.write("shapes differ\n")
            else:
                if verbose:
                    stdout.write("OK\n")
                    stdout.write("        elements........")
                (w,) = np.where(arr1[n].ravel() != arr2[n].ravel())
                if w.size > 0:
                    nfail += 1
                    if verbose:
                        stdout.write(
                            "\n        "
                            + "%s elements in field '%s' differ\n" % (w.size, n)  # noqa
                        )
                else:
                    if verbose:
                        stdout.write("OK\n")

    if nfail == 0:
        if verbose:
            stdout.write("All tests passed\n")
        return True
    else:
        if verbose:
            stdout.write("%d differences found\n" % nfail)
        return False


def replicate(value, shape, dtype=None):
    """
    Create an array filled with the input value

    Parameters
    ----------
    value: Scalar.
        The value to be replicated
    shape: Scalar or sequence.
        The shape of the resulting array.
    dtype: data-type, optional
        The data type of the result. If None, the value is determined from
        the input value.

    Returns
    -------
    array: ndarray
        A new numerical python array with every element set to the input
        value

    Examples
    --------
    >>> import esutil
    >>> from esutil.numpy_util import replicate
    >>> replicate('hello world', 3)
    array(['hello world', 'hello world', 'hello world'], dtype='|S11')
    >>> replicate(-9999.0, (2,2))
    array([[-9999., -9999.],
           [-9999., -9999.]])
    """
    if dtype is None:
        tmp = np.array([value])
        data = np.empty(shape, dtype=tmp.dtype)
    else:
        data = np.empty(shape, dtype=dtype)
    data.fill(value)
    return data


def is_big_endian(array):
    """
    returns True if array is big endian, False otherwise.

    Parameters
    ----------
    array: numpy array
        A numerical python array.

    Returns
    -------
    Truth value:
        True for big-endian

    Notes
    -----
    Strings are neither big or little endian.  The input must be a simple numpy
    array, not an array with fields.

    """

    if np.little_endian:
        machine_big = False
    else:
        machine_big = True

    byteorder = array.dtype.base.byteorder
    return (byteorder == ">") or (machine_big and byteorder == "=")


def is_little_endian(array):
    """
    returns True if array is little endian, False otherwise.

    Parameters
    ----------
    array: numpy array
        A numerical python array.

    Returns
    -------
    Truth value:
        True for little-endian

    Notes
    -----
    Strings are neither big or little endian.  The input must be a simple numpy
    array, not an array with fields.

    """

    if np.little_endian:
        machine_little = True
    else:
        machine_little = False

    byteorder = array.dtype.base.byteorder
    return (byteorder == "<") or (machine_little and byteorder == "=")


def to_native(array, inplace=False, keep_dtype=False):
    """
    NAME:
        to_native

    CALLING SEQUENCE:
        res=to_native(array, inplace=False, keep_dtype=False)

    PURPOSE:
        Convert an array to native byte order, updating the dtype to
        reflect this.  The array can have fields.

    KEYWORDS:
        inplace:  Default False.  If True the data are byteswapped
            in place and a reference to the original array is returned.
            If False a copy is always retured, even if no data were
            swapped.
        keep_dtype: Default False.  Setting to True prevents the dtype from
            being updated to reflect the new byte order.

    REVISION HISTORY:
        Created 2009, Erin Sheldon, NYU.
    """

    if np.little_endian:
        machine_little = True
    else:
        machine_little = False

    data_little = False
    if array.dtype.names is None:
        data_little = is_little_endian(array)
    else:
        # assume all are same byte order: we only need to find one with
        # little endian
        for fname in array.dtype.names:
            if is_little_endian(array[fname]):
                data_little = True
                break

    if (machine_little and not data_little) or (not machine_little and data_little):  # noqa
        doswap = True
    else:
        doswap = False

    if doswap:
        outdata = byteswap(array, inplace, keep_dtype=keep_dtype)
    else:
        if inplace:
            outdata = array
        else:
            outdata = array.copy()

    return outdata


def descr_to_native(descr):
    """
    Remove byte order information from the input numpy dtype
    descriptor.

    parameters
    ----------
    descr:
        Numpy type descriptor.  Note a dtype object.
    """
    newd = []
    for d in descr:
        nd = list(copy.deepcopy(d))
        # remove any byte order info from front of type
        nd[1] = nd[1][1:]
        nd = tuple(nd)
        newd.append(nd)
    return newd


def to_big_endian(array, inplace=False, keep_dtype=False):
    """
    NAME:
        to_big_endian

    CALLING SEQUENCE:
        res=to_big_endian(array, inplace=False, keep_dtype=False)

    PURPOSE:
        Convert an array to big endian byte order, updating the dtype to
        reflect this.  The array can have fields.

    KEYWORDS:
        inplace:  Default False.  If True the data are byteswapped
            in place and a reference to the original array is returned.
            If False a copy is always retured, even if no data were
            swapped.
        keep_dtype: Default False.  Setting to True prevents the dtype from
            being updated to reflect the new byte order.

    REVISION HISTORY:
        Created 2009, Erin Sheldon, NYU.
    """

    doswap = False
    if array.dtype.names is None:
        if not is_big_endian(array):
            doswap = True
    else:
        # assume all are same byte order: we only need to find one with
        # little endian.  Strings and single byte fields are neither
        for fname in array.dtype.names:
            if is_little_endian(array[fname]):
                doswap = True
                break

    if doswap:
        outdata = byteswap(array, inplace, keep_dtype=keep_dtype)
    else:
        if inplace:
            outdata = array
        else:
            outdata = array.copy()

    return outdata


def to_little_endian(array, inplace=False, keep_dtype=False):
    """
    NAME:
        to_little_endian

    CALLING SEQUENCE:
        res=to_little_endian(array, inplace=False, keep_dtype=False)

    PURPOSE:
        Convert an array to big endian byte order, updating the dtype to
        reflect this.  The array can have fields.

    KEYWORDS:
        inplace:  Default False.  If True the data are byteswapped
            in place and a reference to the original array is returned.
            If False a copy is always retured, even if no data were
            swapped.
        keep_dtype: Default False.  Setting to True prevents the dtype from
            being updated to reflect the new byte order.

    REVISION HISTORY:
        Created 2009, Erin Sheldon, NYU.
    """

    doswap = False
    if array.dtype.names is None:
        if not is_little_endian(array):
            doswap = True
    else:
        # assume all are same byte order: we only need to find one with
        # big endian.  Strings and single byte fields are neither
        for fname in array.dtype.names:
            if is_big_endian(array[fname]):
                doswap = True
                break

    if doswap:
        outdata = byteswap(array, inplace, keep_dtype=keep_dtype)
    else:
        if inplace:
            outdata = array
        else:
            outdata = array.copy()

    return outdata


def byteswap(array, inplace=False, keep_dtype=False):
    """
    NAME:
        byteswap

    CALLING SEQUENCE:
        res=byteswap(array, inplace=False, keep_dtype=False)

    PURPOSE:
        Chance the byte order of an array, updating the dtype to reflect this.
        The array can have fields.   This is a wrapper for the .byteswap()
        method which does not update the dtype to reflect the new byte
        ordering.

    KEYWORDS:
        inplace:  Default False.  If True the data are byteswapped
            in place and a reference to the original array is returned.
            If False a copy is always retured, even if no data were
            swapped.
        keep_dtype: Default False.  Setting to True prevents the dtype from
            being updated to reflect the new byte order.

    REVISION HISTORY:
        Created 2009, Erin Sheldon, NYU.
    """

    outdata = array.byteswap(inplace)
    if not keep_dtype:
        outdata.dtype = outdata.dtype.newbyteorder()

    return outdata


def unique(arr, values=False):
    """
    NAME:
        unique

    CALLING SEQUENCE:
        un = unique(arr, values=False)

    PURPOSE:
        Return indices of unique elements of a numpy array, or optionally
        the unique values.  This is not order preserving. This is currently
        implemented in a slow fashion, should be updated.

    KEYWORDS:
        values:  Default False.  If True, return the unique values as
            opposed to just the indices which is the default.

    REVISION HISTORY:
        Created 2009, Erin Sheldon, NYU.
    """
    n = arr.size
    keep = np.zeros(n, dtype="i8")

    s = arr.argsort()

    val = arr[s[0]]
    keep[0] = s[0]
    i = 1
    nkeep = 0
    while i < n:
        ind = s[i]
        if arr[ind] != val:
            val = arr[ind]
            nkeep += 1
            keep[nkeep] = ind
        i += 1

    keep = keep[0: nkeep + 1]
    if values:
        return arr[keep]
    else:
        return keep


def rem_dup(arr, flag, values=False):
    """
    NAME:
        rem_dup

    CALLING SEQUENCE:
        indices = rem_dup(arr, flag, values=False)
        indices, values = rem_dup(arr, flag, values=True)

    PURPOSE:
        Return unique values of an array, and optionally their
        indices in the array.  Keep the duplicate with the
        largest value of flag.
        (If flag is not needed, use np.unique() instead.)

    REVISION HISTORY:
        Created 2013, Amy Kimball, CASS.
    """

    n = arr.size
    if n == 1:
        if values:
            return 0, arr
        else:
            return 0

    s = arr.argsort()  # sort indices
    sarr = arr[s]  # sorted array

    keep = np.zeros(n, dtype="i8")  # indices of values to keep
    nkeep = 0
    sflag = flag[s]  # flags to match sorted array

    val = sarr[0]  # first value to process
    f = sflag[0]  # flag for first value

    for i in range(1, n):
        if sarr[i] != val:
            val = sarr[i]
            f = sflag[i]
            nkeep += 1
            keep[nkeep] = i
        else:
            if sflag[i] > f:
                f = sflag[i]
                keep[nkeep] = i

    keep = keep[0: nkeep + 1]
    s = s[keep]
    s.sort()
    if values:
        return s, arr[s]
    else:
        return s


def match(arr1input, arr2input, presorted=False):
    """
    Match two arrays, returning the indicies of matches for each array, or
    empty arrays if no matches are found.  This means arr1[ind1] == arr2[ind2]
    is true for all corresponding pairs.  For floating-point data this implies
    exact matching with no floating-point tolerance.

    The data type can be int, float, string or bytes.

    arr1 must contain only unique inputs, but arr2 may be non-unique.

    If you know arr1 is sorted, set presorted=True and it will run even faster


    Parameters
    ----------
    arr1: array
        The first array, which must have unique elements.
    arr2: array
        The second array.
    presorted: bool, optional
        If set to True, the first array is assumed to be sorted.

    Returns
    -------
    ind1, ind2: array, array
        The index arrays of matches for each array

    Revision history
    -----------------
    Created 2015, Eli Rykoff, SLAC.
    """

    # make sure 1D
    arr1 = np.atleast_1d(arr1input)
    arr2 = np.atleast_1d(arr2input)

    el = arr1[0]

    if isinstance(el, str) or isinstance(el, bytes):
        is_string = True
    else:
        is_string = False

    if (arr1.size == 0) or (arr2.size == 0):
        mess = "Error: arr1 and arr2 must each be non-zero length"
        raise ValueError(mess)

    # make sure that arr1 has unique values...
    test = np.unique(arr1)
    if test.size != arr1.size:
        raise ValueError("Error: the arr1input must be unique")

    # sort arr1 if not presorted
    if not presorted:
        st1 = np.argsort(arr1)
    else:
        st1 = None

    # search the sorted array
    sub1 = np.searchsorted(arr1, arr2, sorter=st1)

    # check for out-of-bounds at the high end if necessary
    if is_string or arr2.max() > arr1.max():
        (bad,) = np.where(sub1 == arr1.size)
        sub1[bad] = arr1.size - 1

    if not presorted:
        (sub2,) = np.where(arr1[st1[sub1]] == arr2)
        sub1 = st1[sub1[sub2]]
    else:
        (sub2,) = np.where(arr1[sub1] == arr2)
        sub1 = sub1[sub2]

    return sub1, sub2


def match_multi(arr1input, arr2input, presorted=False):
    """
    See numpy_util.match()

    """

    return match(arr1input, arr2input, presorted=False)


def strmatch(arr, regex):
    """
    Match the input string array to the regular expression

    parameters
    ----------
    arr: numpy array
        A numpy array of strings
    regex: string
        The regular expression

    examples
    --------
    regex='.*hello.*'
    logic=strmatch(arr, regex)
    keep=where(logic)
    print arr[keep]
    """
    import re

    r = re.compile(regex)
    vmatch = np.vectorize(lambda x: bool(r.match(x)))
    return vmatch(arr)


def dict2array(d, sort=False, keys=None):
    """
    Name:
      dict2array()

    Calling Sequence:
      arr = dict2array(dict, sort=False, keys=None)

    Purpose:
      Convert a dictionary to an array with fields (recarray, structured
      array).  This works for simple types e.g.  strings, integers, floating
      points.

    Keywords:
        keys: provide a sequence of keys to copy.  This can be used to order
            the fields (standard dictionary keys are unordered) or copy only a
            subset of keys.
        sort: Sort the keys.

    Comments:
        In python >= 3.1 dictionaries can be ordered.

    Revision History:
        late 2009 created.  Erin Sheldon, BNL

    """
    desc = []

    if keys is None:
        if sort:
            keys = sorted(d)
        else:
            keys = list(d.keys())

    for key in keys:
        # check key existence in case a set of keys was sent
        if key not in d:
            raise KeyError("Requested key %s not in dictionary" % key)

        if not isinstance(d[key], (int, float, str)):
            try:
                strval = "%s" % d[key]
                val = eval(strval)
            except Exception:
                val = str(d[key])
        else:
            val = d[key]

        if isinstance(val, int):
            dt = int
        elif isinstance(val, float):
            dt = float
        elif isinstance(val, str):
            dt = "S%s" % len(val)
        else:
            raise ValueError(
                "Only support int, float, string currently, "
                "found %s" % type(d[key])
            )

        desc.append((key, dt))

    a = np.zeros(1, dtype=desc)

    for key in keys:
        a[key] = d[key]

    return a


def dictlist2array(dlist, keys=None, sort=False):
    """
    Convert a list of dictionaries to an array.  Only works for basic types
    such as scalar numbers and strings

    parameters
    ----------
    dlist: list of dicts
        A list of dictionaries.  All dicts should have the same
        entries.

    keys: list, optional
        A sequence of keys to copy.  This can be used to order the fields
        (standard dictionary keys are unordered) or copy only a subset of keys.
    sort: bool, optional
        If True, sort the keys.  default False
    """
    if len(dlist) == 0:
        return np.array([])

    if keys is None:
        keys = dlist[0].keys()

        if sort:
            keys = sorted(keys)

        keys = list(keys)

    types = {}
    # for ordering
    names = []
    for key in keys:

        names.append(key)

        if key not in dlist[0]:
            raise KeyError("Requested key %s not in dictionary" % key)

        for d in dlist:

            val = d[key]

            if isinstance(val, str):
                slen = len(val)
                if key in types:
                    if types[key]["basetype"] != "S":
                        raise ValueError("type mismatch for field '%s'" % key)

                    types[key]["len"] = max(slen, types[key]["len"])
                else:
                    types[key] = {}
                    types[key]["basetype"] = "S"
                    types[key]["len"] = slen
            else:
                if not isinstance(val, (int, float)):
                    raise ValueError(
                        "only basic types currently supported, "
                        "got '%s'" % type(val)
                    )

                if isinstance(val, int):
                    dt = "i8"
                else:
                    dt = "f8"

                if key in types:
                    if types[key]["basetype"] != dt:
                        raise ValueError("type mismatch for field '%s'" % key)
                else:
                    types[key] = {}
                    types[key]["basetype"] = dt

    dtype = []
    for name in names:

        tinfo = types[name]
        if tinfo["basetype"] == "S":
            t = "S%d" % tinfo["len"]
        else:
            t = tinfo["basetype"]

        dtype.append((name, t))

    arr = np.zeros(len(dlist), dtype=dtype)

    for i, d in enumerate(dlist):
        for key in d:
            arr[key][i] = d[key]

    return arr


def splitarray(nper, var_input):
    """
    Name:
        splitarray()

    Purpose:
        Split up an array into chunks of at least a given size.  Return a
        list of these subarrays.  The ordering is perserved.

    Calling Sequence:
        split_list = splitarray(nper, array)

    Inputs:
        nper: Number obj elements in each sub-array.  Note, the last one
            may have fewer if len(array) % nper != 0
        array: A numpy array or object that can be converted to an array.

    Output:
        A list with all the sub-arrays.

    Example:
        In [1]: l=np.arange(25)
        In [2]: nper = 3
        In [3]: split_list = eu.numpy_util.splitarray(nper, l)
        In [4]: split_list
        Out[4]:
        [array([0, 1, 2]),
         array([3, 4, 5]),
         array([6, 7, 8]),
         array([ 9, 10, 11]),
         array([14, 12, 13]),
         array([15, 16, 17]),
         array([18, 19, 20]),
         array([21, 22, 23]),
         array([24])]


    Revision History:
        Created: 2010-04-05, Erin Sheldon, BNL

    """

    var = np.atleast_1d(var_input)
    nchunks = var.size // nper
    if var.size % nper != 0:
        nchunks += 1

    chunks = []
    for i in range(nchunks):
        start = i * nper
        end = (i + 1) * nper
        chunk = var[start:end]
        chunks.append(chunk)

    return chunks


def between(arr, lowval, highval, type="[)"):
    """
    test values of an array are between the specified values

    parameters
    ----------
    arr: array
        numpy array
    lowval: scalar
        lower value
    highval: scalar
        high value
    type: string, optional
        Interval type, one of [] () [) (]

        default [) mimicking slices for integers.  The distinction is often
        less meaningful for floating points

    returns
    -------
    bool array with True for values in the range and False otherwise

    example
    -------

    # select elements that equal 3 or are between 10 and 100 with slice
    # symantics [), e.g. [10,100)

    a=np.arange(200)
    w,=np.where( (a==3) | between(a,10,100) )

    # select elements that equal 3 or are between 10 and 100, inclusive, e.g.
    # [10,100]

    a=np.arange(200)
    w,=np.where( (a==3) | between(a,10,100,'[]') )
    """

    if type == "[)":
        logic = (arr >= lowval) & (arr < highval)
    elif type == "[]":
        logic = (arr >= lowval) & (arr <= highval)
    elif type == "()":
        logic = (arr > lowval) & (arr < highval)
    elif type == "(]":
        logic = (arr > lowval) & (arr <= highval)
    else:
        raise ValueError("bad range type: '%s'" % type)

    return logic


def outside(arr, lowval, highval, type=")("):
    """
    test values of an array are outside the specified values

    parameters
    ----------
    arr: array
        numpy array
    lowval: scalar
        lower value
    highval: scalar
        high value
    type: string, optional
        Interval type, one of )(  ][  ](  )[

        default is )( meaning total exclusion for integers. The
        distinction is often less meaningful for floating points

    returns
    -------
    bool array with True for values outside the range and False otherwise

    example
    -------

    # select elements that equal 25 or are outside 10 and 100, exclusive
    a=np.arange(200)
    w,=np.where( (a==5) | outside(a,10,100) )

    # select elements that are outside 10 and 100, inclusive
    a=np.arange(200)
    w,=np.where( outside(a,10,100,'][') )


    """

    if type == ")(":
        logic = (arr < lowval) | (arr > highval)
    elif type == "][":
        logic = (arr <= lowval) | (arr >= highval)
    elif type == "](":
        logic = (arr <= lowval) | (arr > highval)
    elif type == ")[":
        logic = (arr < lowval) | (arr >= highval)
    else:
        raise ValueError("bad range type: '%s'" % type)

    return logic


def select_percentile(x, perc, get_ranges=False, **keys):
    """
    select data in the given percentile(s)

    parameters
    ----------
    x: array-like
        The data.
    percentile: scalar or sequence
        The percentile(s) to select on.  E.g. [25,50,75] would
        select the quartiles from the array.
    get_ranges: bool, optional
        If true, output the ranges as well as the selections
    **keys:
        Extra keywords for np.percentile  See docs for that
        function for more details.

    returns
    -------
    index_list: list
        A list containing indices for data that falls in each percentile.  For
        example, if the percentiles were [25,50,75] the list would contain
        indices that satisfy

            [x < x25, x25 < x < x50, x50 < x < x75, x > x75]

        where x25 x value at the 25th percentile.

    If get_ranges==True the return is a tuple

        (index_list, range_list)

    Where range_list for percentiles [25,50,75] would be

        [ [x.min(),x25], [x25,x50], [x50,x75], [x75,x.max()] ]

    examples
    --------
    >>> x=np.random.random(10)

    >>> x
        array([ 0.34704303,  0.56085122,  0.90532323,  0.59691811,  0.8905648 ,
            0.86714466,  0.09320939,  0.0274661 ,  0.2320517 ,  0.18905247])

    >>> select_percentiles(x, [25,50,75])
        [array([6, 7, 9]), array([0, 8]), array([1, 3]), array([2, 4, 5])]

    >>> ilist,ranges=select_percentiles(x, [25,50,75], get_ranges=True)
    >>> print(ranges)
     [[0.027466097055253047, 0.19980227889572683],
      [0.19980227889572683, 0.45394712761396222],
      [0.45394712761396222, 0.79958802092575598],
      [0.79958802092575598, 0.90532323138237181]]
    """

    x = np.asanyarray(x)

    if np.isscalar(perc):
        perc = [perc]

    nperc = len(perc)

    pcuts = np.percentile(x, perc, **keys)

    wlist = []
    ranges = []
    for i in range(nperc + 1):
        if i == 0:
            (w,) = np.where(x < pcuts[i])

            ranges.append([x.min(), pcuts[i]])
        elif i == nperc:
            (w,) = np.where(x > pcuts[i - 1])

            ranges.append([pcuts[i - 1], x.max()])
        else:
            (w,) = np.where((x > pcuts[i - 1]) & (x < pcuts[i]))
            ranges.append([pcuts[i - 1], pcuts[i]])

        wlist.append(w)

    if get_ranges:
        return wlist, ranges
    else:
        return wlist


class ArrayWriter:
    """
    Class:
        ArrayWriter
    Purpose:

        A python class to write numpy arrays as ascii data.  recarrays are
        written in columns.  Can also do a "fancy" print of the array which is
        easy on the eyes but not good for machine reading.

        This is much slower than using the recfile package, but as it
        is python only it is more flexible.

    Constructor:
        aw = ArrayWriter(file=None,
                         type='table',
                         delim=' ',
                         array_delim=' ',
                         bracket_arrays=False,
                         page=False)

    Inputs:
        file:
            File name or file object to use for printing.
        type:
            Default: 'table'.  Print simple columns.
            If 'fancy' print with a visually appealing format.
                The delim keyword is ignored and arrays are always bracketed.

            If 'latex' print a latex table such that the
                delimiter is '&' and the lines end in latex
                continuations.  Paging is turned off.

                Currently this just prints the data part of the
                table; in the future, the full header and footer
                will be added with control.
            If 'latex-deluxe' this is currently a synonym for 'latex'

        delim:
            The delimiter between fields.
        array_delim:
            The delimiter between sub-array elements.
        bracket_arrays:

            Put brackets in place to delineate dimensional boundies.  e.g.
            {{a,b,c},{d,e,f}}

            Notes: if type='fancy', brackets are always used.
                   If type='fancy', the default array_delim is ',' instead
                   of ' '

        page:
            If True, send the output to a pager.


    Examples:

        # simple column printing as CSV
        >>> aw = ArrayWriter(delim=',')
        >>> aw.write(arr)
        1383.91540527,200.237106323,0.266301675406
        802.613586426,249.544662476,0.921706936925
        968.170288086,206.072280884,0.702349236707
        ...

        # Add some simple formatting and header with field
        # names (see the write() method for possible keywords)
        >>> aw = ArrayWriter()
        >>> aw.write(arr, header=True, format='%15s')
                      x               y          sigma0
          1383.91540527   200.237106323  0.266301675406
          802.613586426   249.544662476  0.921706936925
          968.170288086   206.072280884  0.702349236707
          1392.78076172   203.387145996  0.140207546039
          286.160888672   203.858230591  0.662831780399
          1399.84436035   205.773635864  0.131057799416
           730.80657959   214.152862549  0.872058593857
          379.738677979   207.252319336  0.626150666221
          1408.07873535   208.487594604  0.135600258469
          1729.27612305   209.312911987  0.626632451812

        # fancy printing with a title.  fancy can be
        # specified on construction or write()
        >>> aw = ArrayWriter(fancy=True)
        >>> aw.write(arr1, title='My Data')
                            My Data
               x       |       y       |     sigma0
        ---------------+---------------+---------------
         1383.91540527 | 200.237106323 | 0.266301675406
         802.613586426 | 249.544662476 | 0.921706936925
         968.170288086 | 206.072280884 | 0.702349236707
         ...



    """

    def __init__(self, **keys):
        self.set_defaults()
        self.open(**keys)

    def set_defaults(self):
        self._delim = " "
        self._array_delim = " "
        self._bracket_arrays = False

        self._fobj = stdout
        self._close_the_fobj = False

        self._page = False
        self._fancy = False
        self._type = "table"

    def set_keywords(self, **keys):
        self._delim = keys.get("delim", self._delim)
        self._page = keys.get("page", self._page)
        self._type = keys.get("type", self._type)

        # deal with deprecated fancy= keyword, superceded
        # by type=
        self._fancy = keys.get("fancy", self._fancy)
        if self._fancy:
            self._type = "fancy"

        if self._type == "fancy":
            self._bracket_arrays = True
        else:
            self._bracket_arrays = keys.get(
                "bracket_arrays", self._bracket_arrays
            )

        if self._type in ["latex", "latex-deluxe"]:
            self._delim = " & "
            self._array_delim = " "
        else:
            if "array_delim" not in keys:
                if self._bracket_arrays:
                    # default to commas in arrays when we are bracketing
                    self._array_delim = ","
                else:
                    # otherwise use the same as delim
                    self._array_delim = self._delim
            else:
                self._array_delim = keys["array_delim"]

    def open(self, **keys):

        self.set_keywords(**keys)

        self._close_the_fobj = False

        # Only load a file object if page is False
        # which in turn can only be true if fancy
        # is also True
        if not self._page:
            fobj = keys.get("file", stdout)

            # if isinstance(fobj,file):
            if hasattr(fobj, "read"):
                self._fobj = fobj
            else:
                self._close_the_fobj = True
                fname = os.path.expanduser(fobj)
                fname = os.path.expandvars(fname)
                self._fobj = open(fname, "w")

    def write(self, arr, **keys):
        """
        Class:
            ArrayWriter
        Name:
            write
        Calling Sequence:
            aw=ArrayWriter(**keywords)
            aw.write(array, **keywords)
        Purpose:
            Write an array.

        Inputs:
            array:
                The array to write
        Keywords:

            NOTE: All the keywords for the constructor can also be sent to the
            write() method, but note that constructor keywords will "stick".

            nlines:
                The number of lines to write
            fields or columns:
                Only print a subset of the fields.

            header:
                Write a header.  If the input is a string, it is written as the
                header followed by a new line.  If it is boolean True, a header
                is generated with the column names.  For fancy printing there
                is always a header.


            trailer:
                Text to print after the array data.

            altnames:
                A list of names for each argument.  There must be an entry for
                each argument. The names are printed above each column when
                doing fancy printing.

            format:
                A format string to apply to every argument.  E.g. format='%15s'
                Since every arg gets the same format, only %s type formats
                should be used unless the types are homogeneous.

            title:
                A title to place above the printout when using fancy printing.

        """

        self.set_keywords(**keys)

        if self._type == "fancy":
            self.fancy_write(arr, **keys)
        elif self._type in ["latex", "latex-deluxe"]:
            self.latex_write(arr, **keys)
        else:
            self.simple_write(arr, **keys)
            return

    def simple_write(self, arrin, **keys):

        # if we are paging, we will store the lines, otherwise this won't be
        # used
        lines = []

        arr = arrin.view(np.ndarray)
        allnames = arr.dtype.names

        if allnames is None:
            # simple arrays are easy
            if self._fobj is stdout:
                for val in arr:
                    print(val)
            else:
                arr.tofile(self._fobj, sep="\n")
            return

        nall = len(allnames)

        nlines = keys.get("nlines", arr.size)
        if "fields" in keys:
            names_in = keys["fields"]
        elif "columns" in keys:
            names_in = keys["columns"]
        else:
            names_in = allnames
        header = keys.get("header", False)
        trailer = keys.get("trailer", None)

        altnames = keys.get("altnames", None)

        format = keys.get("format", None)

        if eu_misc.isstring(names_in[0]):
            names = names_in
        else:
            names = []
            for ni in names_in:
                if ni > nall:
                    raise ValueError("Field index out of range: %s" % ni)
                names.append(allnames[ni])

        nnames = len(names)

        if header is True or eu_misc.isstring(header):
            if header is True:
                # create a header from the names
                if altnames is not None:
                    if len(altnames) != nnames:
                        raise ValueError(
                            "altnames must be same length as fields "
                            "to print"
                        )
                    header = copy.copy(altnames)
                else:
                    header = copy.copy(names)
                if format is not None:
                    header = [format % n for n in header]
                header = self._delim.join(header)

            if self._page:
                lines.append(header)
            else:
                self._fobj.write(header)
                self._fobj.write("\n")

        # we have fields
        astr = ArrayStringifier(
            delim=self._array_delim, brackets=self._bracket_arrays
        )

        for i in range(nlines):
            line = ""
            iname = 0
            for n in names:

                data = arr[n][i]
                if data.ndim > 0:
                    strval = astr.stringify(data)
                    if format is not None:
                        strval = format % strval
                else:
                    if format is not None:
                        strval = format % data
                    else:
                        strval = str(data)

                line += strval

                if iname < (nnames - 1):
                    line += self._delim
                iname += 1
            if self._page:
                lines.append(line)
            else:
                self._fobj.write(line)
                self._fobj.write("\n")

            if i == (nlines - 1):
                break

        if trailer is not None:
            if self._page:
                lines.append(trailer)
            else:
                self._fobj.write(trailer)
                self._fobj.write("\n")

        if self._page:
            lines = "\n".join(lines)
            pydoc.pager(lines)
        else:
            self._fobj.flush()

    def latex_write(self, arrin, **keys):

        arr = arrin.view(np.ndarray)
        allnames = arr.dtype.names

        if allnames is None:
            # simple arrays are easy
            if self._fobj is stdout:
                for val in arr:
                    print(val)
            else:
                arr.tofile(self._fobj, sep="\n")
            return

        nall = len(allnames)

        if "fields" in keys:
            names_in = keys["fields"]
        elif "columns" in keys:
            names_in = keys["columns"]
        else:
            names_in = allnames

        format = keys.get("format", None)

        if eu_misc.isstring(names_in[0]):
            names = names_in
        else:
            names = []
            for ni in names_in:
                if ni > nall:
                    raise ValueError("Field index out of range: %s" % ni)
                names.append(allnames[ni])

        nnames = len(names)

        # we have fields
        astr = ArrayStringifier(
            delim=self._array_delim, brackets=self._bracket_arrays
        )

        nlines = arr.size
        for i in range(nlines):
            line = ""
            iname = 0
            for n in names:

                data = arr[n][i]
                if data.ndim > 0:
                    strval = astr.stringify(data)
                    if format is not None:
                        strval = format % strval
                else:
                    if format is not None:
                        strval = format % data
                    else:
                        strval = str(data)

                line += strval

                if iname < (nnames - 1):
                    line += self._delim
                iname += 1
            self._fobj.write(line)
            if i < (nlines - 1):
                self._fobj.write(r" \\")

            self._fobj.write("\n")

        self._fobj.flush()

    def fancy_write(self, arrin, **keys):
        array = arrin.view(np.ndarray)

        title = keys.get("title", None)

        # if we are paging, we will store the lines, otherwise this won't be
        # used
        lines = []

        if "fields" in keys:
            fields = keys["fields"]
        elif "columns" in keys:
            fields = keys["columns"]
        else:
            fields = array.dtype.names

        printnames = keys.get("altnames", fields)

        if len(fields) != len(printnames):
            raise ValueError(
                "altnames must correspond directly to the fields "
                "being printed"
            )

        nlines = keys.get("nlines", array.size)

        max_lens = {}
        for name in fields:
            max_lens[name] = len(name)

        # first pass through data to get lengths

        # for array fields
        astr = ArrayStringifier(
            delim=self._array_delim, brackets=self._bracket_arrays
        )
        for i in range(nlines):
            for name in fields:
                if array[name][i].ndim > 0:
                    strval = astr.stringify(array[name][i])
                    max_lens[name] = max(max_lens[name], len(strval))
                else:
                    max_lens[name] = max(
                        max_lens[name], len(str(array[name][i]))
                    )

        # now create the forms for writing each field
        forms = {}
        separator = ""
        i = 0
        ntot = len(fields)

        if np_vers == 2:
            string_types = (np.str_, np.bytes_)
        else:
            string_types = (np.str_, np.string_)

        for name in fields:
            if isinstance(array[name][0], string_types) or (array[name][0].ndim > 0):  # noqa
                forms[name] = " %-" + str(max_lens[name]) + "s "
            else:
                forms[name] = " %" + str(max_lens[name]) + "s "

            pad = 2
            if i == (ntot - 1):
                pad = 1
            this_sep = "%s" % "-" * (max_lens[name] + pad)

            if i > 0:
                forms[name] = "|" + forms[name]
                this_sep = "+" + this_sep
            separator += this_sep
            i += 1

        # possible header and title
        header = ""
        for i in range(len(fields)):
            n = fields[i]
            pname = printnames[i]
            header += forms[n] % eu_misc.center_text(pname, max_lens[n])

        if title is not None:
            title = eu_misc.center_text(title, len(header))

        if self._page:
            if title is not None:
                lines.append(title)
            lines.append(header)
            lines.append(separator)

        else:
            if title is not None:
                self._fobj.write(title)
                self._fobj.write("\n")

            self._fobj.write(header)
            self._fobj.write("\n")

            self._fobj.write(separator)
            self._fobj.write("\n")

        for i in range(nlines):
            line = ""
            for name in fields:
                val = array[name][i]

                if val.ndim > 0:
                    val = astr.stringify(val)

                if self._page:
                    line += forms[name] % val
                else:
                    self._fobj.write(forms[name] % val)

            if self._page:
                lines.append(line)
            else:
                self._fobj.write("\n")

        trailer = keys.get("trailer", None)
        if trailer is not None:
            if self._page:
                lines.append(trailer)
            else:
                self._fobj.write(trailer)
                self._fobj.write("\n")

        if self._page:
            lines = "\n".join(lines)
            pydoc.pager(lines)
        else:
            self._fobj.flush()

    def write_array(self, arr):
        """
        Write a simple array, possibly with brackets indicating the dimensions.
        """
        if self._bracket_arrays:
            self._fobj.write("{")

        i = 0

        dimsize = arr.shape[0]

        for a in arr:
            if a.ndim > 0:
                self.write_array(a)
            else:
                self._fobj.write(str(a))

            if i < (dimsize - 1):
                self._fobj.write(",")
            i += 1

        if self._bracket_arrays:
            self._fobj.write("}")

    def close(self):
        if self._close_the_fobj:
            self._fobj.close()

    def __del__(self):
        if self._close_the_fobj:
            self._fobj.close()


def arr2str(arr, delim=",", brackets=False):
    astr = ArrayStringifier(delim=delim, brackets=brackets)
    return astr.stringify(arr)


class ArrayStringifier:
    """
    Stringify a simple array using a delimiter and
    possibly brackets
    """

    def __init__(self, delim=",", brackets=False):
        self._delim = delim
        self._brackets = brackets
        self._values = []

    def stringify(self, arr):
        self._values = []
        if arr.dtype.names is not None:
            raise ValueError("array must be simple, not structured")
        self._process(arr)
        return "".join(self._values)

    def _process(self, arr):

        if self._brackets:
            self._values.append("{")

        i = 0

        dimsize = arr.shape[0]

        for a in arr:
            if a.ndim > 0:
                self._process(a)
            else:
                self._values.append(str(a))

            if i < (dimsize - 1):
                self._values.append(self._delim)
            i += 1

        if self._brackets:
            self._values.append("}")
