"""
Miscellaneous functions that may be convenient:

colprint
  Print sequences out in columnar format (or write to a text file).

ptime
  Prints the input time in seconds in a human-friendly format

center_text
  Print text centered in a field of a given width.

iformat
    Format an integer with commas at each factor of 1000

dict_select
  Select a subset of keys from the input dict.

isstring
  Returns True if the input object is a string.
"""

import os
from sys import stdout, stderr
import pydoc


def wlog(*args):
    narg = len(args)
    for i, arg in enumerate(args):
        stderr.write("%s" % arg)
        if i < (narg - 1):
            stderr.write(" ")
    stderr.write("\n")


def center_text(text, width):
    text = text.strip()
    space = width - len(text)
    return " " * (space // 2) + text + " " * (space // 2 + space % 2)


def iformat(i):
    """
    Format an integer with commas deliminating every factor of 1000
    """
    import locale

    locale.setlocale(locale.LC_ALL, "en_US")
    return locale.format("%d", i, grouping=True)


def colprint(*args, **keys):
    """
    Name:
        colprint
    Purpose:
        print the input sequences or arrays in columns.  All must be the
        same length.
    Calling Sequence:
        colprint(var1, var2, ..., nlines=all, sep=' ', format=None,
                 names=None, nformat=None, file=None, page=False)

    Inputs:
        A set of python objects.  Each must be a sequence or array and all must
        be the same length.

    Optional Inputs:
        nlines:
            Number of lines to print.  Default is all.
        sep:
            Separator, default is ' '
        file:
            A file path or file object.  Default is to print to standard
            output. Ignored if paging.

        format:
            A format string to apply to every argument.  E.g. format='%15s'
            Since every arg gets the same format, only %s type formats should
            be used unless the types are homogeneous.

        names:
            A list of names for each argument.  There must be an entry for
            each argument. The names are printed above each column.
        nformat:
            A Format to apply to the names.  By default, the same format used
            for the arguments is tried.  If formatting fails, a simple '%s' is
            used for the names.

        page: If True, run the output through a pager.

    Revision History:
        Create: 2010-04-05, Erin Sheldon, BNL
    """
    nargs = len(args)
    if nargs == 0:
        return

    n1 = len(args[0])

    # Should we print only a subset?
    nlines = keys.get("nlines", n1)
    if nlines is None:
        nlines = n1
    elif nlines > n1:
        nlines = n1

    # what separator should be used?
    sep = keys.get("sep", " ")

    # should we page the results?
    page = keys.get("page", False)

    if not page:
        # should we print to a file?
        f = keys.get("file", stdout)
        if hasattr(f, "write"):
            fobj = f
        else:
            f = os.path.expandvars(f)
            f = os.path.expanduser(f)
            fobj = open(f, "w")

    # make sure all the arguments are the same length.
    for i in range(nargs):
        arglen = len(args[i])
        if arglen != n1:
            e = "argument %s has non-matching length.  %s instead of %s" % (
                i + 1,
                arglen,
                n1,
            )
            raise ValueError(e)

    # if we are paging, we will store the lines, otherwise this won't be used
    lines = []

    # print a header
    names = keys.get("names", None)
    if names is not None:
        if isinstance(names, str):
            names = [names]
        nnames = len(names)
        if len(names) != nargs:
            raise ValueError("Expected %s names, got %s" % (nargs, nnames))

        # see if explicit format has been requested.
        nformat = keys.get("nformat", None)

        if nformat is not None:
            nformat = [nformat] * nnames
        else:
            # try to use the other format
            fmt = keys.get("format", "%s")
            if fmt is None:
                fmt = "%s"
            nformat = [fmt] * nnames

        nformat = sep.join(nformat)
        try:
            line = nformat % tuple(names)
        except Exception:
            nformat = ["%s"] * nnames
            nformat = sep.join(nformat)
            line = nformat % tuple(names)

        if page:
            lines.append(line)
        else:
            fobj.write(line)
            fobj.write("\n")

    # format for columns.  Same is used for all.
    format = keys.get("format", "%s")
    if format is not None:
        format = [format] * nargs
    else:
        format = ["%s"] * nargs

    format = sep.join(format)

    # loop over and print columns
    for i in range(nlines):
        data = []
        for iarg in range(nargs):
            data.append(args[iarg][i])

        data = tuple(data)

        line = format % data
        line = line.replace("\n", "")

        if page:
            lines.append(line)
        else:
            fobj.write(line)
            fobj.write("\n")

    if page:
        lines = "\n".join(lines)
        pydoc.pager(lines)
    else:
        # close if this is not stdout
        if fobj != stdout:
            fobj.close()


def ptime(seconds, fobj=None, format="%s\n"):
    """
    Name:
        ptime(seconds, fobj=None, format='%s\n')
    Purpose:
        Print a pretty version of the input seconds.
    Calling Sequence:
        ptime(seconds, fobj=None, format='%s\n')

    Inputs:
        Time in seconds.

    Optional Inputs:
        fobj: A file object in which to write the result.
        format: The format for printing.  The default is '%s\n'

    Examples:
        import time
        tm1=time.time()
        ...do somethign
        tm2=time.time()
        ptime(tm2-tm1)

        5 min 23.210000 sec
    """

    min, sec = divmod(seconds, 60.0)
    hr, min = divmod(min, 60.0)
    days, hr = divmod(hr, 24.0)
    yrs, days = divmod(days, 365.0)

    if yrs > 0:
        tstr = "%d years %d days %d hours %d min %f sec" % (yrs, days, hr, min, sec)  # noqa
    elif days > 0:
        tstr = "%d days %d hours %d min %f sec" % (days, hr, min, sec)
    elif hr > 0:
        tstr = "%d hours %d min %f sec" % (hr, min, sec)
    elif min > 0:
        tstr = "%d min %f sec" % (min, sec)
    else:
        tstr = "%f sec" % sec

    if fobj is None:
        stdout.write(format % tstr)
    else:
        fobj.write(format % tstr)


def dict_select(input_dict, keep=None, remove=None):
    """
    Name:
        dict_select
    Purpose:
        Select a subset of keys from the input dict.

    Calling Sequence:
        newdict = dict_select(input_dict, keep=all, remove=[])

    Inputs:
        dict: the input dictionary.

    Optional Inputs:
        keep=None:
            A list of keys to keep. If the input is None or [] all keys are
            returned that are not in the remove list.  Default [].

        remove=None:
            A list of keys to ignore.  Defaults to [].

    """

    outdict = {}

    if keep is None:
        keep = []
    if remove is None:
        remove = []

    if len(keep) == 0:
        # wrap in list() for py3k in which keys() does not return a list.
        keep = list(input_dict.keys())

    for key in keep:
        if key in input_dict and key not in remove:
            outdict[key] = input_dict[key]

    return outdict


def isstring(obj):
    if isinstance(obj, str):
        return True
    else:
        return False


def collect_keyby(data, key):
    """
    Create a new dictionary from the input collection, keyed by the
    values specified by the input key name.

    The  elements of the collection must support key access
    """

    d = {}
    for di in data:
        key_val = di[key]
        if key_val not in d:
            d[key_val] = [di]
        else:
            d[key_val].append(di)

    return d
