"""
    DEPRECATED: use the fitsio package
        https://github.com/esheldon/fitsio
"""
import numpy

try:
    import pyfits

    have_pyfits = True
except ImportError:
    have_pyfits = False

from . import recfile

modemap = {"r": "readonly"}


def read(filename, ext, **keys):
    """
    DEPRECATED: use the fitsio package
        https://github.com/esheldon/fitsio

    Read data from a FITS file using the FITS class.


    Currently this is a wrapper for pyfits designed to allow reading subsets of
    rows and columns from binary tables.  The recfile package is used for this
    purpose.  It can be found in esutil, where most of the development occurs,
    and it's own package on google code.

    Images are always read whole.

    Parameters
    ----------
    ext: number
        The extension

    rows: scalar,sequence,array
        A scalar, sequence or array indicating a subset of rows to read.
        Only used when the extension is a table.
    fields or columns: scalar, sequence, array
        A subset of field to read. fields and columns mean the same thing.
        Only used when the extension is a table.
    view: type object
        Specify an alternative view of the data.  Should be a subclass
        of numpy.ndarray

    lower,upper: boolean
        If lower, all names are converted to lower case.
        If upper, all names are converted to upper case.

    split: boolean
        For binary tables, return a tuple of results rather than a rec array.
        Note the data are still stored in one big chunk, this is just an
        alternative access method.  E.g.

        # this might return a rec array with fields accessed
        # such as data['x'] data['y'] data['index']
        data = r.read()
        # this returns a tuple with an element for each
        x,y,index = r.read(split=True)

    Limitations
    -----------
    .gz files will always be read fully into memory.


    """
    f = FITS(filename, **keys)
    return f.read(ext, **keys)


class FITS(list):
    """
    A class for working with fits files.

    Currently this is a wrapper for pyfits designed to allow reading subsets of
    rows and columns from binary tables.  The recfile package is used for this
    purpose.  It can be found in esutil, where most of the development occurs,
    and it's own package on google code.

    Images are always read whole.

    Examples
    ----------
        f = FITS(filename)
        # read extension 1
        data = f.read(1)

        # read a subset of rows and columns in a binary table extension
        data = f.read(1, rows=[1,235,881], columns=['ra','dec'])

        # read a header
        h = f.read_header(1)

    Limitations
    -----------
    .gz files will always be read fully into memory.


    """

    def __init__(self, filename=None, mode="r", **keys):
        self.filename = filename
        if filename is not None:
            self.open(filename, mode, **keys)

    def open(self, filename, mode="r", **keys):
        while len(self) > 0:
            self.pop()

        if mode not in modemap:
            raise ValueError("only support modes: %s" % list(modemap.keys()))

        if mode == "r":
            mode = "readonly"
        hdulist = pyfits.core.open(filename, mode)
        for i in range(len(hdulist)):
            self.append(hdulist[i])

    def read(self, ext, **keys):
        """
        Read data from a fits file

        Table Parameters
        -----------------
        ext: number
            The extension

        rows: scalar,sequence,array
            A scalar, sequence or array indicating a subset of rows to read.
            Only used when the extension is a table.
        fields or columns: scalar, sequence, array
            A subset of field to read. fields and columns mean the same thing.
            Only used when the extension is a table.
        view: type object
            Specify an alternative view of the data.  Should be a subclass
            of numpy.ndarray

        lower,upper: boolean
            If lower, all names are converted to lower case.
            If upper, all names are converted to upper case.
            Only used when the extension is a table.

        split: boolean
            For binary tables, return a tuple of results rather than a rec
            array. Note the data are still stored in one big chunk, this is
            just an alternative access method.  E.g.

            # this might return a rec array with fields accessed
            # such as data['x'] data['y'] data['index']
            data = r.read()
            # this returns a tuple with an element for each
            x,y,index = r.read(split=True)

        Limitations
        -----------
        .gz files will always be read fully into memory.

        """
        self._check_ext(ext)
        if isinstance(self[ext], pyfits.BinTableHDU):
            return self.read_table(ext, **keys)
        else:
            return self[ext].data

    def read_table(self, ext, **keys):
        """
        Read data from a fits binary table, possibly selecting rows and
        columns.

        Parameters
        ----------
        ext: number
            The extension

        rows: scalar,sequence,array
            A scalar, sequence or array indicating a subset of rows to read.
        fields or columns: scalar, sequence, array
            A subset of field to read. fields and columns mean the same thing.
        view: type object
            Specify an alternative view of the data.  Should be a subclass
            of numpy.ndarray

        lower,upper: boolean
            If lower, all names are converted to lower case.
            If upper, all names are converted to upper case.

        split: boolean
            Get a tuple of results rather than a rec array. Note the data are
            still stored in one big chunk, this is just an alternative access
            method.  E.g.

            # this might return a rec array with fields accessed
            # such as data['x'] data['y'] data['index']
            data = r.read()
            # this returns a tuple with an element for each
            x,y,index = r.read(split=True)

        Limitations
        -----------
        .gz files will always be read fully into memory.

        """
        self._check_ext(ext)

        if not isinstance(self[ext], pyfits.BinTableHDU):
            raise ValueError("Extension %s is not a BinTableHDU" % ext)

        hdu = self[ext]
        hdu._file.seek(hdu._datLoc)

        dtype = self.get_dtype(hdu, **keys)
        nrows = hdu.size() // dtype.itemsize
        robj = recfile.Recfile(hdu._file, dtype=dtype, nrows=nrows)

        res = robj.read(**keys)

        return res

    def read_header(self, ext, **keys):
        self._check_ext(ext)
        return self[ext].header

    def get_dtype(self, hdu, **keys):
        """
        Copied from pyfits.core._get_tbdata and modified
        """

        lower = keys.get("lower", False)
        upper = keys.get("upper", False)

        # get the right shape for the data part of the random group,
        # since binary table does not support ND yet
        if isinstance(hdu, pyfits.GroupsHDU):
            f = hdu._dimShape()[:-1] + hdu._dat_format
            dtype = pyfits.core._convert_format(f)
        else:
            dtype = []
            for c in hdu.columns:
                name = c.name
                if lower:
                    name = name.lower()
                elif upper:
                    name = name.upper()

                format = c.format
                dt = pyfits.core._convert_format(format)
                dtype.append((name, dt))

        dtype = numpy.dtype(dtype)

        # if this is a little endian machine, swap the byteorder of our dtype
        if numpy.little_endian:
            dtype = dtype.newbyteorder(">")
        return dtype

    def _check_ext(self, ext):
        if len(self) == 0:
            raise ValueError("Open a file first")
        maxext = len(self) - 1
        if ext > maxext:
            raise ValueError("ext is outside of range [%s,%s]" % (0, maxext))
