#include <iostream>
#include <sstream>
#include <cstdio>
#include <vector>
#include <math.h>
#include "htmc.h"
#include <algorithm> // for transform

#define NPY_PI 3.141592653589793238462643383279502884L
#define R2D (180.0/NPY_PI)
#define D2R (NPY_PI/180.0)

#if PY_MAJOR_VERSION >= 3
static int *init_numpy(void) {
    import_array();
    return NULL;
}
#else
static void init_numpy(void) {
    import_array();
}
#endif


/*
// alternative sphdist, might be a bit more accurate, a bit slower
void eq2xyz(long double ra, long double dec, long double* x, long double* y, long double* z) {
    // static const long double D2R = 0.0174532925199433;
    static const long double node = 1.6580627893946132;

    long double theta = ra * D2R - node;
    long double phi = dec * D2R;

    *x = cosl(theta)*cosl(phi);
    *y = sinl(theta)*cosl(phi);
    *z = sinl(phi);
}

// A couple of utility functions
// raturn great circle distance in degrees
long double sphdist(long double ra1, long double dec1, 
               long double ra2, long double dec2,
               bool degrees) {

    // static const long double D2R=0.0174532925199433;
    // static const long double R2D=57.29577951308232;

    if (ra1 == ra2 && dec1 == dec2) {
        return 0.0;
    }
    long double x1, y1, z1,
           x2, y2, z2;
    long double cosdis, dis;

    eq2xyz(ra1, dec1, &x1, &y1, &z1);
    eq2xyz(ra2, dec2, &x2, &y2, &z2);

    cosdis = x1*x2 + y1*y2 + z1*z2;

    if (cosdis < -1.0) {
        cosdis = -1.0;
    }
    if (cosdis > 1.0) {
        cosdis = 1.0;
    }

    dis = acosl(cosdis);

    if (degrees) {
        dis *= R2D;
    }

    return dis;
}
*/

// A couple of utility functions
// raturn great circle distance in degrees

double gcirc(double ra1, double dec1, 
             double ra2, double dec2,
             bool degrees)
{

    double sindec1, cosdec1, sindec2, cosdec2, 
           radiff, cosradiff, sinradiff, a, b, dis, cosdis, sindis; 

    if (ra1 == ra2 && dec1 == dec2) {
        return 0.0;
    }

    sindec1 = sin(dec1*D2R);
    cosdec1 = cos(dec1*D2R);

    sindec2 = sin(dec2*D2R);
    cosdec2 = cos(dec2*D2R);

    radiff = (ra1-ra2)*D2R;
    cosradiff = cos(radiff);
    sinradiff = sin(radiff);

    cosdis = sindec1*sindec2 + cosdec1*cosdec2*cosradiff;

    // the arc cosine of cosdis has no precision left for small separations
    // (cosdis rounds to 1 below about 1e-6 degrees); use the arc tangent of
    // sine over cosine, which is accurate for all separations
    a = cosdec2*sinradiff;
    b = cosdec1*sindec2 - sindec1*cosdec2*cosradiff;
    sindis = sqrt(a*a + b*b);

    dis = atan2(sindis, cosdis);
    if (degrees) {
        dis *= R2D;
    }
    return( dis );

}


HTMC::HTMC(int depth) throw (const char *) {
    init(depth);
}

void HTMC::init(int depth) throw (const char *) {
    mDepth = depth;
    mHtmInterface.init(depth);

    init_numpy();
}

void HTMC::lookup_id(PyObject* ra_array, 
                     PyObject* dec_array,
                     PyObject* htm_ids_array) throw (const char* ) {

    npy_intp num = PyArray_SIZE((PyArrayObject *) ra_array);

    for (npy_intp i=0; i<num; i++) {
        double    *raptr    = (double *)    PyArray_GETPTR1((PyArrayObject *) ra_array, i);
        double    *decptr   = (double *)    PyArray_GETPTR1((PyArrayObject *) dec_array, i);
        npy_int64 *idptr    = (npy_int64 *) PyArray_GETPTR1((PyArrayObject *) htm_ids_array, i);

        npy_int64 id = (npy_int64) mHtmInterface.lookupID(*raptr, *decptr);

        *idptr = id;
    }

}

PyObject* HTMC::intersect(double ra, // all in degrees
                          double dec,
                          double radius, // degrees
                          int inclusive) throw (const char *) {

    // static const double D2R=0.0174532925199433;
    npy_intp nfound=0;

    // This is used in the basic calculations
    const SpatialIndex &index = mHtmInterface.index();

    double d = cos( radius*D2R );

    // Declare the domain and the lists
    SpatialDomain domain;    // initialize empty domain
    ValVec<uint64> plist, flist;	// List results

    // Find the triangles around this point
    domain.setRaDecD(ra,dec,d);
    domain.intersect(&index,plist,flist);

    // number of triangles found
    if (inclusive) {
        nfound = flist.length() + plist.length();
    } else {
        nfound = flist.length();
    }

    PyObject* idlist=PyArray_ZEROS(
                                   1,
                                   &nfound,
                                   NPY_INT64,
                                   0);

    npy_intp *idptr=NULL, id_index=0;

    // ----------- FULL NODES -------------
    for(size_t i = 0; i < flist.length(); i++)
    {  
        idptr = (npy_intp* ) PyArray_GETPTR1((PyArrayObject *) idlist, id_index);
        *idptr = flist(i);

        id_index++;
    }
    if (inclusive) {
        // ----------- Partial Nodes ----------
        for(size_t i = 0; i < plist.length(); i++)
        {  
            idptr = (npy_intp* ) PyArray_GETPTR1((PyArrayObject *) idlist, id_index);
            *idptr = plist(i);

            id_index++;
        }
    }

    return idlist;

}




PyObject* HTMC::cbincount(double rmin, // units of scale*angle in radians
                          double rmax, // units of scale*angle in radians
                          long nbin, 
                          PyObject* ra1_array, // all in degrees
                          PyObject* dec1_array,
                          PyObject* ra2_array, 
                          PyObject* dec2_array,
                          PyObject* htmrev2_array,
                          PyObject* minmax_ids_array,
                          PyObject* scale_array,
                          int verbose) throw (const char *) {

    double scale=1, logscale=0;

    double logrmin = log10(rmin);
    double logrmax = log10(rmax);

    npy_int64 minid = *(npy_int64* ) PyArray_GETPTR1((PyArrayObject *) minmax_ids_array, 0);
    npy_int64 maxid = *(npy_int64* ) PyArray_GETPTR1((PyArrayObject *) minmax_ids_array, 1);

    npy_intp n1 = PyArray_SIZE((PyArrayObject *) ra1_array);

    npy_intp nscale=0;
    bool degrees = true;
    if (scale_array != Py_None) {
        degrees = false;
        nscale = PyArray_SIZE((PyArrayObject *) scale_array);

        // we can just do this once
        if (nscale==1) {
            scale = *(double *) PyArray_GETPTR1((PyArrayObject *) scale_array, 0);
            logscale = log10(scale);
        }
    }

    double log_binsize = (logrmax-logrmin)/nbin;
    if (log_binsize < 0) {
        throw("found log_binsize < 0");
    }


    // Output counts in bins
    npy_intp npnbin = nbin;
    PyObject* counts_array = PyArray_ZEROS(
        1,
        &npnbin,
        NPY_INT64,
        0
    );


    // This is used in the basic calculations
    const SpatialIndex &index = mHtmInterface.index();

    // static const double D2R=0.0174532925199433;
    int step=500;
    int linelen=70*step;
    npy_intp totcount=0;

    if (verbose) {
        std::cout<<"rmin: "<<rmin<<"\n";
        std::cout<<"rmax: "<<rmax<<"\n";
        std::cout<<"degrees?: "<<(degrees ? "True" : "False")<<"\n";
        std::cout<<"nbin: "<<nbin<<"\n";
        std::cout<<"logrmin: "<<logrmin<<"\n";
        std::cout<<"logrmax: "<<logrmax<<"\n";

        std::cout<<"log binsize: "<<log_binsize<<"\n";

        std::cout << "\n" <<
            "Each dot is " << step << " points" << std::endl;
    }

    for (npy_intp i1=0; i1<n1; i1++) {
        // Declare the domain and the lists
        SpatialDomain domain;    // initialize empty domain
        ValVec<uint64> plist, flist;	// List results

        // one for each point
        if (nscale > 1) {
            scale = *(double *) PyArray_GETPTR1((PyArrayObject *) scale_array, i1);
            logscale = log10(scale);
        }

        // get actual max search radius in radians for this point
        double d=0;
        double maxangle = rmax/scale;
        if (degrees) { 
            d = cos( maxangle*D2R );
        } else {
            d = cos( maxangle );
        }

        // Find the triangles around this point
        double ra1  = *(double *) PyArray_GETPTR1((PyArrayObject *) ra1_array,  i1);
        double dec1 = *(double *) PyArray_GETPTR1((PyArrayObject *) dec1_array, i1);

        domain.setRaDecD(ra1,dec1,d);
        domain.intersect(&index,plist,flist);	  // intersect with list

        // number of triangles found
        npy_intp nfound = flist.length() + plist.length();
        std::vector<int64_t> idlist(nfound);
        npy_intp idcount=0;

        // ----------- FULL NODES -------------
        for(size_t i = 0; i < flist.length(); i++)
        {  
            idlist[idcount] = flist(i);
            idcount++;
        }
        // ----------- Partial Nodes ----------
        for(size_t i = 0; i < plist.length(); i++)
        {  
            idlist[idcount] = plist(i);
            idcount++;
        }

        for (npy_intp j=0; j<nfound; j++) {
            int64_t leafid = idlist[j];

            // Make sure leaf is in list for ra2,dec2
            if ( leafid >= minid && leafid <= maxid) {
                int64_t leafbin = idlist[j] - minid;

                // Any found in this leaf?
                npy_int64 hlo = *(npy_int64* ) PyArray_GETPTR1((PyArrayObject *) htmrev2_array, leafbin);
                npy_int64 hhi = *(npy_int64* ) PyArray_GETPTR1((PyArrayObject *) htmrev2_array, leafbin+1);

                if ( hlo != hhi) {

                    // Now loop over the sources in this leaf node
                    int64_t nLeafBin = hhi - hlo;

                    for (int64_t ileaf=0; ileaf<nLeafBin;ileaf++) {

                        npy_int64 index = hlo + ileaf;
                        npy_int64 i2 = *(npy_int64* ) PyArray_GETPTR1((PyArrayObject *) htmrev2_array, index);

                        double ra2  = *(double *) PyArray_GETPTR1((PyArrayObject *) ra2_array,  i2);
                        double dec2 = *(double *) PyArray_GETPTR1((PyArrayObject *) dec2_array, i2);

                        // double dis = sphdist(ra1, dec1, ra2, dec2, degrees);
                        double dis = gcirc(ra1, dec1, ra2, dec2, degrees);
                        if (dis <= maxangle) {
                            double logr = logscale + log10(dis);

                            int radbin = (int) ( (logr-logrmin)/log_binsize );
                            // the conversion to int rounds toward zero, so
                            // separations just below rmin would land in bin 0:
                            // test the lower edge on logr itself
                            if (logr >= logrmin && radbin < nbin) {
                                npy_int64 *cptr = (npy_int64 *) PyArray_GETPTR1((PyArrayObject *) counts_array, radbin);
                                *cptr += 1;
                                totcount+=1;
                            } // in one of our radial bins

                        } // Within max angle

                    } // loop over objects in leaf 
                } // points exist in this leafbin
            } // leafid in range of list 2
        } // loop over HTM leaves


        if (verbose) {
            if ( ( ((i1+1) % step) == 0 && (i1 > 0) ) 
                 || (i1 == (n1-1)) ) {
                std::cout<<".";
                if ( ((i1+1) % linelen) == 0 || (i1 == (n1-1)) ) {
                    std::cout<<"\n"<<(i1+1)<<"/"<<n1<<"  pair count: "<<totcount<<"\n";
                }
                fflush(stdout);
            }
        }

    } // loop over list 1

    if (verbose) {
        std::cout<<"\n";
        fflush(stdout);
    }

    return counts_array;
}

Matcher::Matcher(int depth,
                 PyObject* ra_input,
                 PyObject* dec_input) throw (const char *)
{
    init_numpy();

    this->depth = depth;
    this->htm_interface.init(depth);

    this->ra = ra_input;
    this->dec = dec_input;

    Py_INCREF(ra_input);
    Py_INCREF(dec_input);

    this->npoints = PyArray_SIZE((PyArrayObject *) this->ra);

    init_hmap();
}
void Matcher::init_hmap(void)
{
    std::map<int64_t,std::vector<int64_t> >::iterator iter;
    int64_t htmid=0;
    for (npy_intp i=0; i<this->npoints; i++) {

        double ra = *(double *) PyArray_GETPTR1((PyArrayObject *) this->ra, i);
        double dec = *(double *) PyArray_GETPTR1((PyArrayObject *) this->dec, i);

        htmid = htm_interface.lookupID(ra, dec);

        iter=hmap.find(htmid);

        if (iter==hmap.end()) {
            std::vector<int64_t> v;
            v.push_back(i);
            hmap[htmid] = v;
        } else {
            iter->second.push_back(i);
        }
    }
}

PyObject* Matcher::match(PyObject* ra_array, // all in degrees
                         PyObject* dec_array,
                         PyObject* radius_array, // degrees
                         long maxmatch,
                         const char* filename) throw (const char *) {

    std::map<int64_t,std::vector<int64_t> >::iterator iter;

    // no copies made if already double vectors

    npy_intp nrad = PyArray_SIZE((PyArrayObject *) radius_array);

    // These will temporarily hold the results
    std::vector<int64_t> m1;
    std::vector<int64_t> m2;
    std::vector<double> d12;

    // total number of pairs
    npy_intp ntotal = 0;

    FILE* fptr=NULL;

    std::string fname=filename;

    if (fname!= "") {
        fptr = fopen(fname.c_str(), "w");
        if (fptr==NULL) 
        {
            std::stringstream err;
            err<<"Cannot open file: "<<fname<<" : "<<strerror(errno);
            throw err.str().c_str();
        }
    }

    // static const double D2R=0.0174532925199433;

    // This is used in the basic calculations
    const SpatialIndex &index = this->htm_interface.index();


    double rad=0, d=0;
    if (nrad == 1) {
        rad = *(double *) PyArray_GETPTR1((PyArrayObject *) radius_array, 0);
        d = cos( rad*D2R );
    }

    npy_intp ninput = PyArray_SIZE((PyArrayObject *) ra_array);

    for (npy_intp i_input=0; i_input<ninput; i_input++) {
        // Declare the domain and the lists
        SpatialDomain domain;    // initialize empty domain
        ValVec<uint64> plist, flist;	// List results

        if (nrad > 1) {
            rad = *(double *) PyArray_GETPTR1((PyArrayObject *) radius_array, i_input);
            d = cos( rad*D2R );
        }

        // Find the triangles around this point
        double ra  = *(double *) PyArray_GETPTR1((PyArrayObject *) ra_array,  i_input);
        double dec = *(double *) PyArray_GETPTR1((PyArrayObject *) dec_array, i_input);

        domain.setRaDecD(ra,dec,d);
        domain.intersect(&index,plist,flist);	  // intersect with list


        // number of triangles found
        npy_intp nfound = flist.length() + plist.length();
        std::vector<int64_t> idlist(nfound);
        npy_intp idcount=0;

        // We could speed this up when no distance is needed by
        // just keeping everything in the full nodes without
        // doing a distance calculation

        // ----------- FULL NODES -------------
        for(size_t i = 0; i < flist.length(); i++)
        {  
            idlist[idcount] = flist(i);
            idcount++;
        }
        // ----------- Partial Nodes ----------
        for(size_t i = 0; i < plist.length(); i++)
        {  
            idlist[idcount] = plist(i);
            idcount++;
        }


        // these are temporary vectors to hold matches to this point

        std::vector<PAIR_INFO> pair_info;

        for (npy_intp j=0; j<nfound; j++) {

            int64_t htmid = idlist[j];

            iter=this->hmap.find(htmid);
            if (iter != this->hmap.end()) {

                int64_t nleaf =iter->second.size();
                for (int64_t ileaf=0; ileaf<nleaf; ileaf++) {
                    int64_t i_this = iter->second[ileaf];

                    // Returns distance in degrees
                    double tra  = *(double *) PyArray_GETPTR1((PyArrayObject *) this->ra, i_this);
                    double tdec = *(double *) PyArray_GETPTR1((PyArrayObject *) this->dec, i_this);

                    // double dis = sphdist(ra, dec, tra, tdec, true);
                    double dis = gcirc(ra, dec, tra, tdec, true);

                    // Turns out, this pushing is not a bottleneck!
                    // Time is negligible compared to the leaf finding
                    // and the distance calculations
                    if (dis <= rad) {
                        PAIR_INFO pi;
                        pi.i1 = i_input;
                        pi.i2 = i_this;
                        pi.d12 = dis;
                        pair_info.push_back(pi);
                    } // Within max distance 

                } // loop over objects in leaf 

            } // any in leaf?

        } // loop over input ra,dec

        npy_intp nkeep = pair_info.size();
        if ( nkeep > 0 ) {

            // Sort the result by distance
            std::sort( pair_info.begin(), pair_info.end(), PAIR_INFO_ORDERING());

            if ((maxmatch > 0) ) {
                // setting maxmatch to zero is same as "keep all matches"
                if (nkeep > maxmatch) {
                    nkeep=maxmatch;
                }
            }
            for (npy_intp ci=0; ci<nkeep; ci++) {
                if (fptr) {
                    fprintf(fptr, "%ld %ld %.16g\n", 
                            pair_info[ci].i1,
                            pair_info[ci].i2,
                            pair_info[ci].d12);
                } else {
                    m1.push_back(pair_info[ci].i1);
                    m2.push_back(pair_info[ci].i2);
                    d12.push_back(pair_info[ci].d12);
                }
                // keep track of the total number actually saved or written
                ntotal += 1;
            }
        }

    } // loop over list 1


    // This will hold the tuple of match1 and match2 and possibly
    // d12


    if (fptr == NULL) {

        // If we are not writing to a file, we *always* return arrays, even if
        // they are zero size

        PyObject* output_tuple = PyTuple_New(3);

        PyObject* m1out=PyArray_ZEROS(1, &ntotal, NPY_INT64, 0);
        PyObject* m2out=PyArray_ZEROS(1, &ntotal, NPY_INT64, 0);
        PyObject* d12out=PyArray_ZEROS(1, &ntotal, NPY_FLOAT64, 0);

        for (npy_intp i=0; i<ntotal; i++) {
            npy_int64 *m1ptr  = (npy_int64* ) PyArray_GETPTR1((PyArrayObject *) m1out, i);
            npy_int64 *m2ptr  = (npy_int64* ) PyArray_GETPTR1((PyArrayObject *) m2out, i);
            double    *d12ptr = (npy_float64* ) PyArray_GETPTR1((PyArrayObject *) d12out, i);

            *m1ptr = m1[i];
            *m2ptr = m2[i];
            *d12ptr = d12[i];
        }

        PyTuple_SetItem(output_tuple, 0, m1out);
        PyTuple_SetItem(output_tuple, 1, m2out);
        PyTuple_SetItem(output_tuple, 2, d12out);

        return output_tuple;

    } else {
        fflush(fptr);
        fclose(fptr);
        return PyLong_FromLongLong((long long) ntotal);
    }




} // Matcher::match

