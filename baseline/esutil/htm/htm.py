"""

Please consult the docs for the main htm package.  For example, in IPython:

>>> import esutil
>>> esutil.htm?


"""
from __future__ import print_function
from sys import stdout
import numpy as np

from . import htmc
from .. import stat


class HTM(htmc.HTMC):
    def get_depth(self):
        """
        get the depth of the HTM tree
        """
        return super(HTM, self).get_depth()

    depth = get_depth

    def get_area(self):
        """

        Get the mean area of triangles at the current depth. The units are
        square degrees.

        >>> import esutil as eu
        >>> h=eu.htm.HTM(10)
        >>> h.area()
        0.0049177362024091812

        """
        pi = np.pi
        area0 = 4.0 * pi / 8.0

        areadiv = 4.0 ** self.get_depth()
        area = area0 / areadiv * (180.0 / pi) ** 2
        return area

    area = get_area

    def get_ntriangles(self):
        """
        Get the number of triangles in the mesh

        Returns
        -------
        number of triangles, 8 * 4**(depth-1)
        """
        depth = self.get_depth()
        return 8 * 4**(depth-1)

    def lookup_id(self, ra, dec):
        """
        look up the htm index for the input ra,dec

        parameters
        ----------
        ra: array or scalar
            an array or scalar right ascension in degrees
        dec: array or scalar
            an array or scalar declination in degrees

        returns
        -------
        htmid:
            The htm index
        """

        ra = np.atleast_1d(ra).astype('f8')
        dec = np.atleast_1d(dec).astype('f8')

        if ra.size != dec.size:
            raise ValueError("ra and dec must be the same size")

        htm_ids = np.zeros(ra.size, dtype="i8")
        super(HTM, self).lookup_id(ra, dec, htm_ids)

        return htm_ids

    def intersect(self, ra, dec, radius, inclusive=True):
        """
        look up all triangles that are contained within or intersect a circle
        centered on the input point.

        parameters
        ----------
        ra: float
            RA of central point in degrees
        dec: float
            DEC of central point in degrees
        radius: float
            radius of circle in degrees
        inclusive: bool, optional
            If False, only include triangles fully enclosed within the circle.
            If True, include those that intersect as well.  Default True.
        """
        if inclusive:
            inc = 1
        else:
            inc = 0

        return super(HTM, self).intersect(ra, dec, radius, inc)

    def match(
        self,
        ra1,
        dec1,
        ra2,
        dec2,
        radius,
        maxmatch=1,
        htmid2=None,
        htmrev2=None,
        minid=None,
        maxid=None,
        file=None,
        verbose=False,
    ):
        """
        Match two sets of ra/dec points using the Hierarchical Triangular
        Mesh code.

        This is very efficient for large search angles and large lists.

        This method is a simple wrapper around the Matcher class

        If you need to match against the same points many times, use
        a htm.Matcher object.  don't use the old htmrev2 method.

        parameters
        ----------
        ra1: array or scalar
        dec1: array or scalar
        ra2: array or scalar
        dec2:  array or scalar
            ra,dec in degrees.  Can be scalars or arrays but require
            size(ra) == size(dec) in each set.

        radius:
            The search radius in degrees.  May be a scalar or an array same
            length as ra1,dec1.

        maxmatch: integer, optional
            The maximum number of allowed matches per point. Defaults to return
            the closest match, maxmatch=1.  Use maxmatch<=0 to return all
            matches

        file: string, optional
            A file into which will be written the indices and distances.
            When this keyword is sent, None,None,None is returned. This is
            useful when the match data will not fit into memory.

            The file is in text format of the form
                i1 i2 d12
            Where i1,i2 are the match indices and d12 is the distance between
            them in degrees

            The file can be read using the read() method.

        returns
        -------
            m1,m2,d12:

                A tuple of m1,m2,d12.  m1 and m2 are the match indices for
                list1 and list2.  d12 is the distance between them in degrees.

                You can subscript the arrays ra1,dec1 with the m1 array, and
                ra2,dec2 with the m2 array.   If you do so the data "line-up"
                so that points in list one and list two at the same index are
                matches.

                If you write the results to a file, the returned value is
                simply the match count.

        examples
        --------

        # try the matching two lists of ra/dec points
        # Matching by ra/dec, expect 10 matches ordered by distance....

        # match within two arcseconds
        two = 2.0/3600.

        # offset second list by fraction of 2 arcsec in dec
        # but last one won't match anything
        ra1 = [200.0, 200.0, 200.0, 175.23, 21.36]
        dec1 = [24.3,  24.3,  24.3,  -28.25, -15.32]
        ra2 = [200.0, 200.0, 200.0, 175.23, 55.25]
        dec2 = [24.3+0.75*two, 24.3 + 0.25*two,
                24.3 - 0.33*two, -28.25 + 0.58*two, 75.22]

        m1,m2,d12 = h.match(ra1,dec1,ra2,dec2,two,maxmatch=0)

        for i in xrange(m1.size):
            print(m1[i],m2[i],d12[i])

        # this produces
        0 1 0.00013888984367
        0 2 0.00018333285694
        0 0 0.000416666032158
        1 1 0.00013888984367
        1 2 0.00018333285694
        1 0 0.000416666032158
        2 1 0.00013888984367
        2 2 0.00018333285694
        2 0 0.000416666032158
        3 3 0.000322221232243

        """

        ra1 = np.atleast_1d(ra1).astype('f8')
        dec1 = np.atleast_1d(dec1).astype('f8')
        ra2 = np.atleast_1d(ra2).astype('f8')
        dec2 = np.atleast_1d(dec2).astype('f8')
        radius = np.atleast_1d(radius).astype('f8')

        if ra1.size != dec1.size or ra2.size != ra2.size:
            stup = (ra1.size, dec1.size, ra2.size, dec2.size)
            raise ValueError(
                "ra1 must equal dec1 in size "
                "and ra2 must equal dec2 in size, "
                "got %d,%d and %d,%d" % stup
            )

        if radius.size != 1 and radius.size != ra1.size:
            raise ValueError(
                "radius size (%d) != 1 and"
                " != ra1,dec1 size (%d)" % (radius.size, ra1.size)
            )

        filename = check_filename(file, convert_none=True)

        if htmrev2 is None:
            # new way using a Matcher
            depth = self.get_depth()
            matcher = Matcher(depth, ra2, dec2)
            return matcher.match(
                ra1, dec1, radius, maxmatch=maxmatch, file=filename,
            )

        else:
            # deprecated way
            raise RuntimeError(
                "the old way using reverse indices is no "
                "longer supported. use a Matcher instead"
            )

            """
            if minid is None:
                minid = htmid2.min()
            if maxid is None:
                maxid = htmid2.max()
            if verbose:
                stdout.write("calling cmatch\n");stdout.flush()
            return self.cmatch(radius,
                               ra1,
                               dec1,
                               ra2,
                               dec2,
                               htmrev2,
                               minid,
                               maxid,
                               maxmatch,
                               file)
            """

    def match_prepare(self, ra, dec, verbose=False):
        """
        deprecated.  Use an htm.Matcher instead
        """

        raise RuntimeError("deprecated: use a htm.Matcher instead")

        if verbose:
            stdout.write("looking up ids\n")

        htmid = self.lookup_id(ra, dec)
        minid = htmid.min()
        maxid = htmid.max()

        if verbose:
            stdout.write("Getting reverse indices\n")
            stdout.flush()
        hist, htmrev = stat.histogram(htmid - minid, rev=True)

        return htmrev, minid, maxid

    def cylmatch(
        self,
        ra1,
        dec1,
        z1,
        ra2,
        dec2,
        z2,
        radius,
        dz,
        maxmatch=50,
        unique=False,
        nkeep=1,
        **kw
    ):

        """
        Class:
           HTM

        Method Name:
           cylmatch

        Purpose:

            Perform cylindrical RA-Dec matching of two catalogs (called cat1
            and cat2 in this document) by finding the nearest N neighbors
            within a fixed search aperture and within a fixed window in some
            arbitrary third parameter (called z for the purposes of this
            document).  The M closest neighbors in the z direction are returned
            (with M <= N)

        Syntax:

            matchind, adist, zdist = cylmatch(ra1, dec1, z1, ra2, dec2, z2,
                                              radius., dz,
                                              maxmatch = 50,
                                              unique=False, nkeep=1,
                                              **kw)

        Inputs:

            ra1, dec1, z1: RA, Dec and z values for the first catalog
            ra2, dec2, z2: As above for the second catalog.

          radius: angular radius of search aperture in degrees.
                  Can either be a scalar or an array of values the
                  same length as cat1.

          dz: half-length of the search cylinder.  Can either be a scalar or
              an array of values the same length as cat1.


        Keywords:

            maxmatch:
                Maximum number of neighbors to find within the
                search radius.  Note that this maximum is applied to
                the *total* number of matches within the search
                aperture, before applying the cut in the z parameter.
                Therefore, one wants this to be something reasonably
                large (much larger than nkeep) to ensure that matches
                within the dz cut are included.  However, larger
                values of magmatch may create memory issues for very
                large catalogs.  Default value: 10.

            nkeep:
                Number of matches to keep (and return) for each object in cat1
                (M in the summary description above). If the number of matches
                is less than nkeep then the rest of the  output arrays will be
                filled with the bad value -999.  nkeep is automatically set to
                1 and ignored if unique = True. Default value: 1.

            radius:
                angular radius of search aperture in degrees.  Can either be a
                scalar or an array of values the same length as cat1.
            dz:
                half-length of the search cylinder.  Can either be a scalar or
                an array of values the same length as cat1.

            unique:
                if this is True, the matching is done uniquely--i.e., members
                of catalog 2 are excluded from future matching once they are
                matched to something in catalog 1 (the matching proceeds by
                stepping through catalog 1 in the order in which it is passed
                to cylmatch).



        **kw: keyword arguments passed through to htm.match.


        Returns:

        matchind:
            An LIST of arrays containing indices of the matches in cat2 for
            each element of cat1, with a maximum of nkeep matches returned per
            element.

        adist:
            angular distance to each of these matches

        zdist:
            distance to each of these matches in the z dimension
            (catalog 1 minus catalog 2).


        Revision History:

        Written by Brian F. Gerke at SLAC in May-June 2010.
        Added to HTM class in July 2010.

        """
        ra1 = np.atleast_1d(ra1).astype('f8')
        dec1 = np.atleast_1d(dec1).astype('f8')
        z1 = np.atleast_1d(z1).astype('f8')

        ra2 = np.atleast_1d(ra2).astype('f8')
        dec2 = np.atleast_1d(dec2).astype('f8')
        z2 = np.atleast_1d(z2).astype('f8')

        radius = np.atleast_1d(radius).astype('f8')
        dz = np.atleast_1d(dz).astype('f8')

        npts = ra1.size
        npts2 = ra2.size

        # check input
        if (
            (dec1.size != npts)
            | (dec2.size != npts2)
            | (z1.size != npts)
            | (z2.size != npts2)
        ):
            print(npts, ra1.size, dec1.size, z1.size)
            print(npts2, ra2.size, dec2.size, z2.size)
            raise ValueError(
                "RA Dec and z input arrays to cylmatch must"
                " have the same length for each catalog."
            )
        if (dz.size > 1) & (dz.size < npts):
            raise ValueError(
                "dz must either be a scalar or have the "
                "same length as the input arrays in cylmatch."
            )

        if unique:
            nkeep = 1

        # Match up catalogs on the sky.
        m1, m2, d12 = self.match(
            ra1, dec1, ra2, dec2, radius, maxmatch=maxmatch, **kw
        )

        # Now limit to matches that are within +/- dz of each object

        if dz.size == 1:

            w, = np.where(
                (z2[m2] > (z1[m1] - dz)) & (z2[m2] < (z1[m1] + dz))
            )

        else:

            (w,) = np.where(
                (z2[m2] > (z1[m1] - dz[m1])) & (z2[m2] < (z1[m1] + dz[m1]))
            )

        m1 = m1[w]
        m2 = m2[w]
        d12 = d12[w]

        # Now in the case of multiple matches, take the one with the minimum
        # difference in z.

        matchindex = []
        angdist = []
        zdist = []

        # for ensuring unique matching
        flag_matched = np.zeros(ra2.size, dtype="i4")

        # j1 and j2 are the start and end indices for each unique value of m1
        j1 = np.searchsorted(
            m1, np.arange(npts), "left"
        )
        j2 = np.searchsorted(m1, np.arange(npts), "right")

        for i in range(npts):

            if j1[i] == j2[i]:

                # First, check to see if the ith object got a match at all...
                # If so, check and see if the best match has already been used
                if (j1[i] != i) or ((flag_matched[m2[j1[i]]] == 1) and unique):
                    matchis = np.array([], dtype="i4")
                    angdists = np.array([])
                    zdiff = np.array([])
                else:
                    # if there's a good match, save it.
                    matchis = np.array(m2[[j1[i]]])
                    angdists = np.array(d12[[j1[i]]])
                    zdiff = np.array([(z1[m1[j1[i]]] - z2[m2[j1[i]]])])
                    flag_matched[m2[j1[i]]] = 1
            else:
                # compute difference in z-direction for the different matches.
                zdiff = z1[m1[j1[i]: j2[i]]] - z2[m2[j1[i]: j2[i]]]

                angdists = d12[j1[i]: j2[i]]
                matchis = m2[j1[i]: j2[i]]

                # Remove objects that have already been used
                if unique:
                    wind = np.where(flag_matched[m2[j1[i]: j2[i]]] == 0)
                    zdiff = zdiff[wind]

                # If none remains, there's no match
                if len(zdiff) > 0:
                    # sort matches by absolute distance in z direction
                    isort = (np.abs(zdiff)).argsort()
                    angdists = angdists[isort]
                    zdiff = zdiff[isort]
                    matchis = matchis[isort]
                    flag_matched[m2[j1[i] + isort[0]]] = 1

            matchindex.append(matchis[0:nkeep])
            angdist.append(angdists[0:nkeep])
            zdist.append(zdiff[0:nkeep])

        return (matchindex, angdist, zdist)

    def read(self, filename, verbose=False):
        """
        read pair info from a file written by match()

        parameters
        ----------
        filename: string
            the file name
        verbose: bool, optional
            print some info

        returns
        -------

        A structured array with fields
            'i1': The index of matches into list 1
            'i2': The index of matches into list 2
            'd12': The distance between the matched points
                in degrees.

        These are equivalent to m1,m2,d12 returned by the
            match() program when no file is sent.
        """

        return read_pairs(filename, verbose=verbose)

    def bincount(
        self,
        rmin,
        rmax,
        nbin,
        ra1,
        dec1,
        ra2,
        dec2,
        scale=None,
        htmid2=None,
        htmrev2=None,
        minid=None,
        maxid=None,
        getbins=True,
        verbose=False,
    ):
        """
        Count number of pairs between two ra/dec lists as a function of their
        separation.

        The binning is equal spaced in the log10 of the separation.  By default
        the bin sizes are in degrees, unless the scale= keyword is sent, in
        which case the units are angle*scale with angle in radians.

        This code can be used to calculate correlation functions by
        calling it on the data as well as random points.

        Parameters
        ----------
        rmin,rmax: float
            Smallest and largest separations to consider.  This
            is in degrees unless the scale= keyword is sent, in which
            case the units are angle*scale with angle in radians.
        nbin: int
            The number of bins to use.  Bins will be equally spaced in the
            log10 of the separation.

        ra1,dec1,ra2,dec2:  arrays
            ra,dec lists in degrees.  Can be scalars or arrays but require
            len(ra) == len(dec) in each set.

        scale: float
            A scale to apply to the angular separations.  Must be the same
            length as ra1/dec1 or a scalar.  This is useful for converting
            angle to physical distance.  For example, scale could be the
            angular diameter distance to cosmological objects in list 1.

            If scale is sent, rmin,rmax must be in units of angle*scale
            where angle is in *radians*, as opposed to degrees when scale
            is not sent.

        htmid2: array
            the htm indexes for the second list.  If not sent they are
            generated internally.  You can generate these with

                htmid = h.lookup_id(ra, dec)

        htmrev2:  array
            The result of
                htmid2 = h.lookup_id(ra, dec)
                minid=htmid2.min()
                hist2,htmrev2=\\
                    esutil.stat.histogram(htmid2-minid,rev=True)

            If not sent it is calculated internally for fast lookups.  You
            can save time on successive calls by generating these your
            self.

        getbins: bool
            If True, return a tuple
                rlower,rupper,counts

            instead of just counts.  rlower,rupper are the lower and upper
            limits of each bin.  getbins=True is the default.
        verbose: bool
            set to True to see progress

        Returns
        --------

        if getbins=False:
            counts:  The pair counts in equally spaced logarithmic bins
                in separation.

        if getbins=True:
            rlower,rupper,counts:  rlower,rupper are the lower
            and upper limits of each bin.  getbins=True is the default.

        Restrictions
        ------------
        The C++ wrapper must be compiled.  This will happend automatically
        during installation of esutil.

        Examples
        --------
        import esutil

        # simple angular counts, no scaling
        # cross correlate with second catalog
        h=esutil.htm.HTM()
        rmin=10/3600. # degrees
        rmax=1000/3600. # degrees
        nbin=25
        rlower,rupper,counts = h.bincount(rmin,rmax,nbin,
                                          cat1['ra'],cat1['dec'],
                                          cat2['ra'],cat2['dec'])



        # counts using scaling of the angular separations with
        # the angular diameter distance to get projected
        # physical separations.
        c=esutil.cosmology.Cosmo()

        # get angular diameter distance to catalog 1 objects
        DA=c.Da(0.0, cat1['z'])

        # cross correlate with second catalog
        h=esutil.htm.HTM()
        rmin=0.025 # Mpc
        rmax=30.0 # Mpc
        nbin=25
        rlower,rupper,counts = h.bincount(rmin,rmax,nbin,
                                          cat1['ra'],cat1['dec'],
                                          cat2['ra'],cat2['dec'],
                                          scale=DA)

        """

        if verbose:
            verb = 1
        else:
            verb = 0

        ra1 = np.atleast_1d(ra1).astype('f8')
        dec1 = np.atleast_1d(dec1).astype('f8')
        ra2 = np.atleast_1d(ra2).astype('f8')
        dec2 = np.atleast_1d(dec2).astype('f8')

        if ra1.size != dec1.size or ra2.size != ra2.size:
            stup = (ra1.size, dec1.size, ra2.size, dec2.size)
            raise ValueError(
                "ra1 must equal dec1 in size "
                "and ra2 must equal dec2 in size, "
                "got %d,%d and %d,%d" % stup
            )

        if scale is not None:
            scale = np.atleast_1d(scale).astype('f8')
            if scale.size != 1 and scale.size != ra1.size:
                raise ValueError(
                    "scale size (%d) != 1 and"
                    " != ra1,dec1 size (%d)" % (scale.size, ra1.size)
                )

        if htmid2 is None:
            htmid2 = self.lookup_id(ra2, dec2)
            minid = htmid2.min()
            maxid = htmid2.max()
        else:
            htmid2 = np.atleast_1d(htmid2).astype('i8')
            if htmid2.size != ra2.size:
                raise ValueError(
                    "htmid2 size %d != " "ra size %d" % (htmid2.size, ra2.size)
                )
            if minid is None:
                minid = htmid2.min()
            if maxid is None:
                maxid = htmid2.max()

        if htmrev2 is None:
            # bin k must hold the points with id minid + k, whatever minid is
            hist2, htmrev2 = stat.histogram(
                htmid2 - minid, min=0, max=maxid - minid, rev=True,
            )

        minmax_ids = np.array([minid, maxid], dtype="i8")

        counts = self.cbincount(
            rmin, rmax, nbin, ra1, dec1, ra2, dec2, htmrev2, minmax_ids, scale,
            verb
        )
        if getbins:
            lower, upper = log_bins(rmin, rmax, nbin)
            return lower, upper, counts
        else:
            return counts

    def __reduce__(self):
        """To support pickle/unpickle: only depth matters"""
        return (HTM, (self.get_depth(),))


class Matcher(htmc.Matcher):
    """
    Object to match arrays of ra,dec

    The object is initialized with a set of ra,dec and can
    then be matched to other sets

    parameters
    ----------
    depth: int
        Depth for HTM tree.
    ra: scalar or array
        right ascension in degrees
    dec: scalar or array
        declination in degrees
    """

    def __init__(self, depth, ra, dec):

        ra = np.atleast_1d(ra).astype('f8')
        dec = np.atleast_1d(dec).astype('f8')

        if ra.size != dec.size:
            raise ValueError(
                "ra size (%d) != " "dec size (%d)" % (ra.size, dec.size)
            )

        super(Matcher, self).__init__(depth, ra, dec)

    def get_depth(self):
        """
        get the depth of the HTM tree
        """
        return super(Matcher, self).get_depth()

    depth = get_depth

    def match(self, ra, dec, radius, maxmatch=1, file=None):
        """
        match to the input set of ra,dec points

        ra: scalar or array
            right ascension in degrees to match against
        dec: scalar or array in degrees to match against
            declination
        radius: scalar or array
            search radius in degrees.  Can be a scalar or an array the
            same size as ra,dec
        maxmatch: int, optional
            Maximum number of matches to return per point, default 1.  Set
            maxmatch <= 0 to return all matches
        file: string, optional
            If sent, write pairs to the file instead of returning the pair
            data.  This can use much less memory for large match sets.
            The file is in text format of the form
                i1 i2 d12
            Where i1,i2 are the match indices and d12 is the distance between
            them in degrees

            The file can be read using the read() method.

        returns
        -------
        If file= is not sent, a tuple (m1, m2, d):
            m1:
                The match indices for the input ra,dec
            m2:
                The match indices for the internal ra,dec of
                the Matcher object
            d:
                Distance between the pairs in degrees

        if file= is sent then then number of matches is returned.
        """

        ra = np.atleast_1d(ra).astype('f8')
        dec = np.atleast_1d(dec).astype('f8')
        radius = np.atleast_1d(radius).astype('f8')

        if ra.size != dec.size:
            raise ValueError(
                "ra size (%d) != " "dec size (%d)" % (ra.size, dec.size)
            )

        if radius.size != 1 and radius.size != ra.size:
            raise ValueError(
                "radius size (%d) != 1 and"
                " != ra,dec size (%d)" % (radius.size, ra.size)
            )

        filename = check_filename(file, convert_none=True)
        return super(Matcher, self).match(ra, dec, radius, maxmatch, filename)


def read_pairs(filename, verbose=False):
    """
    Read the pair info written by the match code

    parameters
    -----------
    filename: string
        filename holding the pair data
    verbose: bool, optional
        print what is happening
    returns
    -------
    Outputs:
        A structured array with fields
            'i1': The index of matches into list 1
            'i2': The index of matches into list 2
            'd12': The distance between the matched points
                in degrees.

        These are equivalent to m1,m2,d12 returned by the
        match() program when no file is sent.

    Example:
        import esutil
        h=esutil.htm.HTM(depth)

        h.match(ra1,dec1,ra2,dec2,radius,filename='some-path')

        data = esutil.htm.read_pairs('some-path')
    """

    from ..recfile import Recfile

    dtype = [("i1", "i8"), ("i2", "i8"), ("d12", "f8")]

    if verbose:
        stdout.write("Reading pairs from file: %s\n" % filename)

    filename = check_filename(filename)
    with Recfile(filename, "r", dtype=dtype, delim=" ") as robj:
        data = robj.read()

    if verbose:
        stdout.write("    read %d pairs\n" % data.size)

    return data


def gmean(r1, r2, dim):
    e1 = dim + 1
    e2 = dim

    frac = (1.0 * e2) / e1
    gm = frac * (r1 ** e1 - r2 ** e1) / (r1 ** e2 - r2 ** e2)
    return gm


def log_bins(rmin, rmax, nbin):
    log_rmin = np.log10(rmin)
    log_rmax = np.log10(rmax)
    log_binsize = (log_rmax - log_rmin) / nbin

    log_lower_edges = log_rmin + log_binsize * np.arange(nbin)
    log_upper_edges = log_lower_edges + log_binsize

    lower_edges = 10 ** log_lower_edges
    upper_edges = 10 ** log_upper_edges

    return lower_edges, upper_edges


def check_filename(filename, convert_none=False):
    if filename is not None:
        filename = str(filename)
    else:
        if convert_none:
            filename = ""

    return filename
