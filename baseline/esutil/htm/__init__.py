"""

Module:
    htm


Classes:
    HTM, Matcher

HTM
---
    This is a Class to deal with the Hierarchical Triangular Mesh, which is a
    method for breaking the unit sphere into a tree structure where each node
    in the tree is represented by a spherical triangle.  The "depth" of the
    tree determines the size of the smallest triangle, with higher depths
    producing smaller triangles.  Currently depths up to 13 are supported,
    which corresponds to an area of 0.28 square arcminutes, which is limited by
    using 32-bit integers for the indices.

    A primary advantage of the HTM over other schemes is that it deals
    perfectly well with the poles.

    The HTM was developed by astrophysicists at JHU, see their page for a full
    explanation:

        http://www.sdss.jhu.edu/htm/

    At this point a few tasks can be peformed with this code:

        1) Find the id of the triangle a point or set of points belongs to.

        2) Calculate the area of triangles at the current depth.

        3) Match two sets of points to one another, returning lists of matches
        and the separation distance, or alternatively write the data to a file.


Methods:

    get_depth(): get the depth of the HTM tree

    lookup_id(ra, dec):

        Return the index of the input ra/dec at the current htm depth.
        ra/dec may be arrays.

    intersect(ra, dec, radius, inclusive=True):
        look up all triangles that are contained within or intersect a circle
        centered on the input point.

    area():
        Return the mean area of triangles at the current depth. The units
        are square degrees.

    match(ra1,dec1,ra2,dec2,radius,
          maxmatch=1,
          htmid2=None,
          htmrev2=None,
          minid=None,
          maxid=None,
          file=None)

        Match two sets of ra/dec points using the Hierarchical Triangular Mesh
        code.  This is a wrapper using a Matcher object. This is very efficient
        for large search angles and large lists.  May seem slow otherwise due
        to overhead creating htm indices.  You can optionally write the results
        to a file.

        If you need to match the same set multiple times, use a Matcher
        object

    read(filename)
        Read the pairs from a file written by the match() code.

    See the docs for each method for more details.  For example, in ipython:
        >>> import esutil
        >>> h=esutil.htm.HTM(depth)
        >>> h.lookup_id?
        >>> h.match?
        >>> h.area?

Matcher
-------

Class to match sets of ra,dec points.  One set is loaded and put
into a tree structure, and can then be matched quickly to other
sets of ra,dec points

methods
-------

get_depth(): get the depth of the HTM tree
match(): match against a set of ra,dec points

"""

# flake8: noqa


from . import htm
from .htm import HTM, Matcher, read_pairs
