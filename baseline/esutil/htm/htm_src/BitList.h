#ifndef _BitList_h
#define _BitList_h

//#     Filename:       BitList.h
//#
//#     Declarations for the BitList and BitListIterator classes
//#
//#
//#     Author:         Peter Z. Kunszt
//#     
//#     Date:           June 3, 1998
//#
//#
//#
//# (c) Copyright The Johns Hopkins University 1998
//# All Rights Reserved
//#
//# The software and information contained herein are proprietary to The
//# Johns Hopkins University, Copyright 1998.  This software is furnished
//# pursuant to a written license agreement and may be used, copied,
//# transmitted, and stored only in accordance with the terms of such
//# license and with the inclusion of the above copyright notice.  This
//# software and information or any other copies thereof may not be
//# provided or otherwise made available to any other person.
//#
//#

#include <VarVec.h>
//#include <iostream.h>
#include <iostream>

//##########################################################################
//#
/** BitList class.
    The BitList is an array of bits. A bit can be set at any index using the
    set member function, the array expands itself automatically if the index
    exceeds the current size.
*/

//class LINKAGE BitList {
class BitList {
public:
  /** Default constructor.
      You can initialize the BitList to a specific size
      and optionally the increment may be set by which the size internal ValVec
      will be incremented upon need. (See VarVec.h for explanation on this.)
      The default is to double the size of the array whenever an expansion
      is requested.
  */
  BitList(size_t size = 0, size_t inc = 0);

  /// Copy constructor
  BitList(const BitList &);

  /// The assignment operator.
  BitList & operator = (const BitList &);

  /** Set a bit at a specific index to a given value. 
      If the index is larger
      than the current size, the BitList expands itself to be able to hold
      that value at the given index.
  */
  void set(size_t index, bool value);

  /** Get the bit at a given index. 
      If the index exceeds the size, the return
      value is 'false'. All BitLists are treated as if they were of infinite
      size, all bits set to zero at initialization.
  */
  bool operator [](size_t) const;

  /** Get  the size of the BitList. 
      At construction time the size may be
      specified, and that much memory will be allocated. If the construction
      is done using the set() method, the size is 'minimal' i.e. as much as
      it needs to hold the last 'true' bit.
  */
  size_t size() const;

  /// Count the TRUE bits from a certain index on
  size_t count() const;

  /// Just chop off all trailing 'false' bits. Returns new size.
  size_t trim();

  /** Clear the list, reset size to 0 by default. 
      If true is given as an
      argument, the size is kept. */
  void clear(bool keepLength = false);

  /// The standard &= operator.
  BitList & operator &= (const BitList &);

  /// The standard |= operator.
  BitList & operator |= (const BitList &);

  /// The standard ^= operator.
  BitList & operator ^= (const BitList &);

  /// The inversion method, flip every bit in the BitList.
  void invert();

  /// Check if BL is a subset of the current list
  bool covers(const BitList & BL) const;

  /** Check if the current BitList overlaps with the other.
      (i.e. they have at least one common Bit) */
  bool overlaps(const BitList & BL) const;

  /// compress output
  void compress(std::ostream &) const;

  /// decompress input
  void decompress(std::istream &);

private:
  friend class BitListIterator;
  /*
  friend BitList & and (BitList &, const BitList &, const BitList &);
  friend BitList & or  (BitList &, const BitList &, const BitList &);
  friend BitList & xor (BitList &, const BitList &, const BitList &);
  friend BitList & not (BitList &, const BitList &);
  */
  // Mask off litter at the end of a word not belonging to the array
  void choplitter_();

  // the data
  ValVec<uint32> bits_;

  // the length of the array in bits
  size_t size_;

  friend class sxFluxIndexData;
  friend class sxSegment;
};


//##########################################################################
/** BitListIterator class.
    The BitListIterator iterates through a BitList efficiently.
    next() and prev() functions are supplied. The functionality is
    the following: The BLI saves an index to a certain bit in the BitList.
    By calling either next() or prev(), the index is incremented/decremented and
    the bit it is pointing to now is returned. If it gets out of bounds,
    these functions return 'false'. The out-of-bounds index is always 
    index=size. So by calling next() or prev() again when a 'false' was 
    returned previously, they return the first/last bit, respectively.
*/

//class LINKAGE BitListIterator {
class BitListIterator {
public:
  /// Default Constructor.
  BitListIterator();

  /** Normal Constructor.
      needs the BitList to initialize.
      The index is initialized to the out-of-bounds index. */
  BitListIterator(const BitList & bitlist); 

  /** Alternate constructor.
      set the starting index yourself. */
  BitListIterator(const BitList & bitlist, size_t start); 

  /// Copy Constructor.
  BitListIterator(const BitListIterator &);

  /// Assignment.
  BitListIterator & operator = (const BitListIterator &);

  /// Init: set current index
  void setindex(size_t index);

  /** Set the internal index to the next 'true' or 'false' bit;
      indicated by the first argument, and return the index in the
      second argument.  Returns 'false' if it gets out of bounds.
      Example: For a BitList 001100110011 (from left to right, index
      starts at 0), the subsequent call to next(true,index) returns
      'true' and sets index to 2, 3, 6, 7, 10, 11. The next call puts
      leaves index and returns 'false'. A subsequent next() call would
      again return 'true' and set index=2.
  */
  bool next(bool bit, size_t & _index);

  /// Just like next(), but the index is moved backwards.
  bool prev(bool bit, size_t & _index);

  /** Increment the internal index and return the value of the bit it points to
      Returns 'false' if the boundary is reached.
      <b>Example</b>: For a BitList 001100110011 the calls to next(val) return
      'true' and set bit to 0, 0, 1, 1, 0, 0, 1, 1, 0, 0, 1, 1. The next call
      returns 'false' and does not set bit. A subsequent call would return
      again 'true' and set bit to the first bit in the list, in this case 0.
  */
  bool next(bool & bit);

  /** Just like next() above, just decrement the internal index.
      The two versions of next() and prev() may be used in conjunction.
  */
  bool prev(bool & bit);

private:
  // increment, decrement current index, return 'true' or 'false' if boundary
  // has been reached
  bool incr();
  bool decr();

  // data members
  const BitList * bitlist;   // The BitList associated with this iterator
  uint32 word_;              // The current word in bitlist_.bits_
  size_t wordIndex_;         // The index of the word in bitlist_.bits_
  size_t bitIndex_;          // The index of the bit in the current word.
};

#include "BitList.hxx"
#endif /* _BitList_h */
