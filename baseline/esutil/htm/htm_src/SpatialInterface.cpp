//#     Filename:       SpatialInterface.cpp
//#
//#     The htmInterface class is defined here.
//#
//#     Author:         Peter Z. Kunszt 
//#
//#     Date:           August 30 , 2000
//#
//#
//#
//# (c) Copyright The Johns Hopkins University 2000
//# All Rights Reserved
//#
//# The software and information contained herein are proprietary to The
//# Johns Hopkins University, Copyright 1998.  This software is furnished
//# pursuant to a written license agreement and may be used, copied,
//# transmitted, and stored only in accordance with the terms of such
//# license and with the inclusion of the above copyright notice.  This
//# software and information or any other copies thereof may not be
//# provided or otherwise made available to any other person.
//#
//#
//#     Modification History:
//#
#include "SpatialInterface.h"
#include "string.h"
#include "stdlib.h"
#include "math.h"

#ifdef SpatialSGI
extern long long atoll (const char *str);
#endif

//==============================================================
//
// These are the implementations of the htm interface.
//
//==============================================================

///////////CONSTRUCTOR///////////////////////


htmInterface::htmInterface(
        size_t depth, 
        size_t savedepth) {
    index_ = NULL;
    t_ = NULL;
    init(depth, savedepth);
}
void htmInterface::init(size_t depth, size_t savedepth) {
    if (index_) delete index_;
    if (t_) delete t_;
    index_ = new SpatialIndex(depth, savedepth);
}

///////////DESTRUCTOR////////////////////////
htmInterface::~htmInterface() {
  delete index_;
  if(t_) delete t_;
}

///////////LOOKUP METHODS////////////////////

uint64 htmInterface::lookupIDCmd(char *str) {

  cmd_ = str;
  if(t_)delete t_;
  t_ = new VarStrToken(cmd_);

  float64 v[3];
  cmdCode code = getCode();

  if(code == NAME) {
    VarStr token = t_->next();
    if(token.empty())
      throw SpatialInterfaceError("htmInterface:lookupIDCmd: expected Name");

    return index_->idByName(token.data());
  }

  getDepth();
  if(! parseVec(code, v) )
    throw SpatialInterfaceError("htmInterface:lookupIDCmd: Expect vector in Command. ", cmd_.data());

  if( code == J2000 )
    return lookupID(v[0], v[1]);
  return lookupID(v[0], v[1], v[2]);

}

const char * htmInterface::lookupNameCmd(char *str) {

  cmd_ = str;
  if(t_)delete t_;
  t_ = new VarStrToken(cmd_);

  float64 v[3];
  cmdCode code = getCode();

  if(code == ID) {
    uint64 id = getInt64();
    index_->nameById(id, name_);
  } else {
    getDepth();

  if(! parseVec(code, v) )
    throw SpatialInterfaceError("htmInterface:lookupNameCmd: Expect vector in Command. ", cmd_.data());

    if( code == J2000 )
      index_->nameByPoint(v[0], v[1], name_);
    else {
      SpatialVector tv(v[0], v[1], v[2]);
      index_->nameByPoint(tv, name_);
    }
  }

  return name_;
}

// get the depth, which is the first item in the first character argument.
#if defined(__sun)
cmdCode
#else
htmInterface::cmdCode
#endif
htmInterface::getCode() {

  cmdCode code;

  // parse incoming string. expect to have an integer indicating the
  // depth at first position.
  VarStr token = t_->next();

  if     ( token == "J2000" )
    code = J2000;
  else if( token == "CARTESIAN" )
    code = CARTESIAN;
  else if( token == "NAME" )
    code = NAME;
  else if( token == "ID" )
    code = ID;
  else if( token == "DOMAIN" )
    code = HTMDOMAIN;
  else
    throw SpatialInterfaceError("htmInterface:getCode: Unexpected command",token);

  return code;
}

void htmInterface::getDepth() {

  size_t depth = getInteger();
  if(depth > HTMMAXDEPTH)
    throw SpatialInterfaceError("htmInterface:getDepth: Depth too large: Max is HTMMAXDEPTH");

  changeDepth(depth);
}

// get an integer out of the command string
int32 htmInterface::getInteger() {

  if(!t_)
    throw SpatialFailure("htmInterface:getInteger: No command to parse");

  // parse incoming string. expect to have an integer.
  const VarStr &token = t_->next();
  if(!isInteger(token))
    throw SpatialInterfaceError("htmInterface:getInteger: Expected integer at first position of Command. ",cmd_.data());

  return atoi(token.data());
}

// get an integer out of the command string
uint64 htmInterface::getInt64() {

  if(!t_)
    throw SpatialFailure("htmInterface:getInt64: No command to parse");

  // parse incoming string. expect to have an integer.
  const VarStr &token = t_->next();
  if(!isInteger(token))
    throw SpatialInterfaceError("htmInterface:getInt64: Expected integer at first position of Command. ",cmd_.data());
#ifdef SpatialWinNT
  return _atoi64(token.data());
#elif defined(SpatialDigitalUnix)
  return atol(token.data());
#else
  return atoll(token.data());
#endif
}

// get an integer out of the command string
float64 htmInterface::getFloat() {

  if(!t_)
    throw SpatialFailure("htmInterface:getFloat: No command to parse");

  // parse incoming string. expect to have an integer.
  const VarStr &token = t_->next();
  if(!isFloat(token))
    throw SpatialInterfaceError("htmInterface:getFloat: Expected float at first position of Command. ",cmd_.data());

  return atof(token.data());
}


// parse the string, returning the number of floats
// that have been in the string.
bool
htmInterface::parseVec( cmdCode code, float64 *v) {

  VarStr  token;
  size_t  i = 0, len;

  if(code == J2000)
    len = 2;
  else if(code == CARTESIAN)
    len = 3;
  else
    throw SpatialInterfaceError("htmInterface:parseVec: Expected code J2000 or CARTESIAN.");

  // parse the next len positions
  while( i < len  ) {
    token = t_->next();
    if(token.empty())break;

    if(!isFloat(token))
      throw SpatialInterfaceError("htmInterface:parse: Expected float at this position of Command. ",cmd_.data());
    if(i == len)
      throw SpatialInterfaceError("htmInterface:parse: Expect less floats in Command. ", cmd_.data());
    v[i++] = atof(token.data());
  }

  if(i < len)
    return false;
  return true;

}

// check whether string is an integer
bool htmInterface::isInteger(const VarStr &str) {
  if(str.empty()) return false;
  uint32 len = str.length();
  return (strspn(str.data(),"+0123456789") == len) ? true : false ;
}

// check whether string is a float
bool htmInterface::isFloat(const VarStr &str) {
  if(str.empty()) return false;
  uint32 len = str.length();
  return (strspn(str.data(),"+-.e0123456789") == len) ? true : false ;
}

// check whether an id is in a range
bool htmInterface::inRange( const ValVec<htmRange> &range, int64 id) {
  size_t len = range.length() - 1;

  // completely outside range?
  if(size_t(id) < range(0).lo || size_t(id) > range(len).hi)return false;

  // check each range
  for(size_t i = 0; i <= len; i++)
    if(size_t(id) <= range(i).hi && size_t(id) >= range(i).lo) return true;
  return false;
}

// print the range
void 
htmInterface::printRange( const ValVec<htmRange> &range) {
 
  //for(size_t i = 0; i < range.length(); i++)
    //cout << SpatialIndex::nameById(range(i).lo) << ":" 
    //	 << SpatialIndex::nameById(range(i).hi) 
    //	 << "   " << range(i).lo << " - " << range(i).hi << "\n";
}  

//////////////////////CIRCLEREGION METHODS//////////////////////

const ValVec<htmRange> & 
htmInterface::circleRegion( float64 ra,
			    float64 dec,
			    float64 rad ) {

  SpatialDomain domain;
  SpatialConvex convex;
  float64 d = cos(gPi * rad/10800.0);
  SpatialConstraint c(SpatialVector(ra,dec),d);

  convex.add(c);
  domain.add(convex);
  domain.intersect(index_, idList_);

  range_.cut(range_.length());
  makeRange();

  return range_;
}

const ValVec<htmRange> & 
htmInterface::circleRegion( float64 x,
			    float64 y,
			    float64 z,
			    float64 rad ) {

  SpatialDomain domain;
  SpatialConvex convex;
  float64 d = cos(gPi * rad/10800.0);
  SpatialConstraint c(SpatialVector(x,y,z),d);

  convex.add(c);
  domain.add(convex);
  domain.intersect(index_, idList_);

  range_.cut(range_.length());
  makeRange();

  return range_;
}

const ValVec<htmRange> & 
htmInterface::circleRegionCmd( char *str ) {

  cmd_ = str;
  if(t_)delete t_;
  t_ = new VarStrToken(cmd_);

  float64 v[3];
  float64 d;

  cmdCode code = getCode();
  getDepth();
  if(! parseVec(code, v) )
    throw SpatialInterfaceError("htmInterface:circleRegionCmd: Expect vector in Command. ", cmd_.data());
  d = getFloat();

  if( code == J2000 )
    return circleRegion(v[0], v[1], d);

  return circleRegion(v[0], v[1], v[2], d);
}

//////////////////ConvexHull///////////////////////
const ValVec<htmRange> & 
htmInterface::convexHull( ValVec<float64> ra,
			  ValVec<float64> dec ) {

  if(ra.length() != dec.length())
    throw SpatialBoundsError("htmInterface:convexHull: ra and dec list are not equal size");

  polyCorners_.cut(polyCorners_.length());
  for(size_t i = 0; i < ra.length(); i++) {
    SpatialVector v(ra(i),dec(i));
    setPolyCorner(v);
  }

  return doHull();
}

const ValVec<htmRange> & 
htmInterface::convexHull( ValVec<float64> x,
			  ValVec<float64> y,
			  ValVec<float64> z ) {

  if(x.length() != y.length() || x.length() != z.length())
    throw SpatialBoundsError("htmInterface:convexHull: x,y,z lists are not equal size");

  polyCorners_.cut(polyCorners_.length());
  for(size_t i = 0; i < x.length(); i++) {
    SpatialVector v(x(i),y(i),z(i));
    setPolyCorner(v);
  }

  return doHull();
}

const ValVec<htmRange> & 
htmInterface::convexHullCmd( char *str ) {

  cmd_ = str;
  if(t_)delete t_;
  t_ = new VarStrToken(cmd_);

  float64 v[3];

  cmdCode code = getCode();
  getDepth();

  polyCorners_.cut(polyCorners_.length());

  // the next positions give the coordinate
  while(  parseVec( code, v ) ) {
    if(code == J2000) {
      SpatialVector tv(v[0],v[1]);
      setPolyCorner(tv);
    } else {
      SpatialVector tv(v[0],v[1],v[2]);
      setPolyCorner(tv);
    }
  }

  return doHull();
}


const ValVec<htmRange> &
htmInterface::doHull() {

  if(polyCorners_.length() < 3)
    throw SpatialInterfaceError("htmInterface:convexHull: empty hull: points on one line");

  SpatialVector v;
  SpatialConvex x;
  SpatialDomain d;

  // The constraint we have for each side is a 0-constraint (great circle)
  // passing through the 2 corners. Since we are in counterclockwise order,
  // the vector product of the two successive corners just gives the correct
  // constraint.
  size_t i, len = polyCorners_.length();
  for(i = 0; i < len; i++) {
    v = polyCorners_[i].c_ ^ polyCorners_[ i == len-1 ? 0 : i + 1].c_;
#ifdef DIAG
    cerr << v << " " << i << "," << i+1 << "\n";
#endif
    v.normalize();
    SpatialConstraint c(v,0);
    x.add(c);
  }
  d.add(x);
  d.intersect(index_, idList_);

  range_.cut(range_.length());
  makeRange();

  return range_;
}

//*******************************
//
// polygon processing : generate the convex
// hull of the points given in POLY - and then generate
// the proper x,y,z constraint.
//

// get corner - pop off two last items from stack, which must be
// numbers - update poly list.
void 
htmInterface::setPolyCorner(SpatialVector &v) {

    size_t i,len = polyCorners_.length();
    // test for already existing points
    for(i = 0; i < len; i++)
        if(v == polyCorners_[i].c_)return;

    if(len < 2) {
        // just append first two points.
        len = polyCorners_.insert(1);
        polyCorners_[len-1].c_ = v;
    } else if (len == 2) {
        // first polygon: triangle. set correct orientation.
        if( (polyCorners_[0].c_ ^ polyCorners_[1].c_)*v > 0 ) {
            polyCorners_.insert(1);
            polyCorners_[2].c_ = v;
        } else if( (polyCorners_[0].c_ ^ polyCorners_[1].c_)*v < 0 ) {
            polyCorners_.insert(1,1);
            polyCorners_[1].c_ = v;
        }
    } else {
        //
        // Now we set the flags for the existing polygon.
        // if the new point is inside (i.e. to the left) of 
        // the half-sphere defined by the points polyCorners_[i],[i+1]
        // we set polyCorners_[i].inside_ to true.
        //
        // if it is outside, and the previous side was also outside,
        // set the replace_ flag to true(this corner will be dropped)
        // (be careful on the edges - that's the trackoutside flag)

        bool polyTrackOutside = false;
        for(i = 0 ; i < len; i++) {
            polyCorners_[i].replace_ = false;
            polyCorners_[i].inside_  = false;

            // test if new point is inside the constraint given by a,b
            if( (polyCorners_[i].c_ ^ polyCorners_[i+1==len ? 0 : i+1].c_)*v > 0 ) {
                polyCorners_[i].inside_ = true;
                polyTrackOutside = false;
            } else {
                if(polyTrackOutside)
                    polyCorners_[i].replace_ = true;
                polyTrackOutside = true;
            }
        }
        if(polyTrackOutside && !polyCorners_[0].inside_)
            polyCorners_[0].replace_ = true;

#ifdef DIAG
        for(i = 0; i < len; i++)
            cerr << i << " : " 
                << (polyCorners_[i].replace_ ? "replace" : "keep   ")
                << (polyCorners_[i].inside_ ? "inside  : " : "outside : ")
                << polyCorners_[i].c_ << "\n";
#endif
        // now delete all corners that have the 'replace' flag set
        i = 0;
        while(i < len) {
            if(polyCorners_[i].replace_) {
                polyCorners_.remove(i); // remove returns new length
                len--;
            } else i++;
        }

        // now find first corner that is not inside (there is only one)
        // and insert the point after that.
        // if all points are inside we did nothing...

        for(i = 0; i < len; i++) {
            if(!polyCorners_[i].inside_) {
#ifdef DIAG
                cerr << "QL: Insert after " << i << " length = " << len << "\n";
#endif
                if(i == len-1) // append if last
                    polyCorners_.insert(1);
                else
                    polyCorners_.insert(1,len-i-1);
                polyCorners_[i+1].c_ = v;
                break;
            }
        }
    }
#ifdef DIAG
    cerr << "QL: Polygon: now " << polyCorners_.length() << "\n";
    for(i = 0; i < polyCorners_.length(); i++)
        cerr << polyCorners_[i].c_ << "\n";
#endif
}


void htmInterface::makeRange() {

  if(idList_.length() == 0)return;
  uint64 level = 1;
  size_t depth = index_->maxlevel_;
  size_t n =  (depth+2) * 2 - 1;
  level = level << n;

  htmRange r;
  size_t i,j=0;

  // make the first range
  r.lo = idList_(0);
  r.hi = r.lo;

  while ( (r.lo & level) == 0 ) {
    r.lo = r.lo << 2;
    r.hi = (r.hi << 2) + 3;
  }
  range_.append(r);


  for(i= 1; i < idList_.length(); i++ ) {
    r.lo = idList_(i);
    r.hi = r.lo;

    while ( (r.lo & level) == 0 ) {
      r.lo = r.lo << 2;
      r.hi = (r.hi << 2) + 3;
    }


    // handle overlapping ranges: next lo just after previous hi
    if(r.lo <= range_(j).hi + 1) {
      if(r.hi > range_(j).hi) // replace hi with new one if higher
	range_(j).hi = r.hi;
      continue;
    }

    j++;
    range_.append(r);
  }

}

//////////////////////////domain/////////////////////////
const ValVec<htmRange> & 
htmInterface::domain( SpatialDomain & domain ) {
  domain.intersect(index_, idList_);
  range_.cut(range_.length());
  makeRange();
  return range_;
}

const ValVec<htmRange> & 
htmInterface::domainCmd( char *str ) {

  cmd_ = str;
  if(t_)delete t_;
  t_ = new VarStrToken(cmd_);

  cmdCode code = getCode();
  if(code != HTMDOMAIN)
    throw SpatialInterfaceError("htmInterface:domainCmd: missing keyword HTMDOMAIN");
  getDepth();

  int32 nx,nc;
  nx = getInteger();

  SpatialDomain dom;
  for(int32 i = 0 ; i < nx; i++ ) {
    SpatialConvex convex;
    nc = getInteger();
    for(int32 j = 0; j < nc; j++ ) {
      float64 x = getFloat();
      float64 y = getFloat();
      float64 z = getFloat();
      float64 d = getFloat();
      SpatialConstraint c(SpatialVector(x,y,z),d);
      convex.add(c);
    }
    dom.add(convex);
  }

  return domain(dom);
}

