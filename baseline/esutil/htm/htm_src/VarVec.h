//#     Filename:       VarVec.h
//#
//#     ValVec and PtrVec templates
//#
//#
//#     Author:         John Doug Reynolds
//#     
//#     Creation Date:  May, 1998
//#
//#
//#
//# (c) Copyright The Johns Hopkins University 1998
//# All Rights Reserved
//#
//# The software and information contained herein are proprietary to The
//# Johns Hopkins University, Copyright 1998.  This software is furnished
//# pursuant to a written license agreement and may be used, copied,
//# transmitted, and stored only in accordance with the terms of such
//# license and with the inclusion of the above copyright notice.  This
//# software and information or any other copies thereof may not be
//# provided or otherwise made available to any other person.
//#
//#
//# Modification history:
//#
//# Peter Kunszt, Oct. 1998    Add clear() method to ValVec
//# Peter Kunszt, Feb. 1999    Add keep() method to ValVec
//#
//# Peter Kunszt, Feb. 1999    Add new template LinPool
//# Peter Kunszt, Apr. 1999    Add remove() method to ValVec
//#
//# Peter Kunszt, Jul. 2000    Add VarStr class
//# Peter Kunszt, Aug. 2000    Add VarStrToken class

#ifndef VARVEC_H
#define VARVEC_H

#ifndef _BOUNDS_EXCEPTION

#ifdef SXDB
#   include <sxException.h>
#   define _BOUNDS_EXCEPTION sxBoundsError
#   define _INTERFACE_EXCEPTION sxInterfaceError
#else
#   include <SpatialException.h>
#   define _BOUNDS_EXCEPTION SpatialBoundsError
#   define _INTERFACE_EXCEPTION SpatialInterfaceError
#endif

#endif

#include <sys/types.h>
#include <stdlib.h>
#include <new>
#include <string.h>



/** Dynamic array of arbitrary values

    This is a template for a general-purpose dynamic array.  The array
    grows automatically as needed, but reallocation occurs only when
    the length exceeds the capacity.  The capacity is increased in
    large blocks, the size of which may be optimized.  A fill value may
    be defined, in which case it is used to initialize new elements of
    the array, but not new capacity.  Which is to say that
    initialization is deferred until the array grows into its capacity.
    The public data member, increment_, specifies the amount by which
    the capacity is increased during reallocation.  By default,
    increment_ is zero, which causes the capacity to double upon each
    reallocation.  A non-zero increment_ is simply added to the
    capacity upon each reallocation.  The capacity is extended by this
    amount or by whatever greater amount is necessary to accommodate
    the new length of the array.
*/

template<class T> class ValVec {
public:
  /** Destructor. */

  ~ValVec( void );

  /** Default constructor.
      optionally specify initial capacity and
      reallocation increment.  */

  ValVec( size_t capacity = 0, size_t increment = 0 );

  /** Alternate constructor.
      define a fill value in addition to the
      parameters of the default constructor.  class T must have
      well-defined copy semantics.  The fill value does not exist
      unless it is defined.  */

  ValVec( const T &fill, size_t capacity, size_t increment );

  /** Copy constructor.  
      The initial capacity is the current capacity of the duplicated array.  */

  ValVec( const ValVec& );

  /** Assignment/copy operator.
      does not decrease the capacity. */

  ValVec&	operator =( const ValVec& );

  /** Efficient array operator (const version): no bounds checking. */

  const T&	operator ()( size_t index ) const { return vector_[index]; }

  /** Efficient array operator (non-const version): no bounds checking. */

  T&		operator ()( size_t index ) { return vector_[index]; }

  /** Bounds-checking array operator (const version): throws sxBoundsError. */

  const T&	operator []( size_t index ) const;

  /** Bounds-checking array operator (non-const version): throws sxBoundsError.
   */

  T&		operator []( size_t index );

  /** Bounds-adjusting array operator.  Returns the array
      element at the specified index, extending the array as necessary
      to bring it within bounds.  The fill value, if defined, is the
      initializer for any new elements. */

  T&		at( size_t index );

  /** Returns current occupied length of array.
   */

  size_t	length( void ) const { return length_; }

  /** Efficiently insert given element at end of array.
      Avoids redundant initialization of new array element, except for
      when a reallocation is required.  Returns the new length. */

  size_t	append( const T& );

  /** Insert new array elements.  
      Count specifies the number of new elements, and offset specifies
      where in the array to insert them.  By default the new elements
      are appended.  The fill value, if defined, is the initializer
      for the new elements.  offset refers to the end of the array:
      the first new element is located at index (length - offset).
      Returns the new length.  Throws sxBoundsError if offset is
      greater than length. */

  size_t	insert( size_t count, size_t offset = 0 );

  /** Remove array elements.  

      count specifies the number of elements to remove, and offset
      specifies which elements to remove.  By default elements are
      removed from the end of the array.  The unused capacity grows by
      this amount.  offset refers to the end of the array: the first
      removed element is located at index (length - offset - count).
      Returns the new length.  Throws sxBoundsError if (offset+count)
      is greater than length. */

  size_t	cut( size_t count, size_t offset = 0 );

  /** Removes the element specified by offset.
      This is basically a wrapper for the cut method cut(1, length-offset-1) */

  void		remove( size_t offset );

  /** Cut but keep capacity. 
      Just like the cut method, it resets the length of the vector by
      count, but it always starts from the end.  The elements, however
      are not deleted and rebuilt with the default, but rather left as
      they are for the user to reuse. */

  size_t	keep( size_t count );

  /** Return the fill value, defining it if necessary.
      If the fill value is not defined, a default value is created
      using the default constructor for class T.  The returned object
      is an lvalue, to which a new fill value may be assigned. */

  T&		fill( void );

  /** Returns true if the fill value is defined. */

  bool		fillExists( void ) const;

  /** Undefine and destroy the current fill value.
      (if it is defined) */

  void		unsetFill( void );


  /** Reset every value to the fill value. If no fill is
      defined, nothing is done!  */

  void		clear( void );

  /** Do a qsort */

  void		sort( int (*compar)(const void*, const void*) );

  /// Linear growth increment */
  size_t			increment_;
  /// dynamic array of values */
  T				*vector_;
private:
   size_t			length_;	// occupied length of vector
   size_t			capacity_;	// allocated length of vector
   T				*pFill_;	// pointer to fill value
};

/** Dynamic array of pointers

    This is a template for a dynamic array of pointers.  The design is
    very similar to the general-purpose version, ValVec, but
    specialized according to the memory management issues peculiar to
    storing pointers.  This version uses nil as the fill value, which
    cannot be customized or disabled.  By default, the cut method uses
    the delete operator to free pointers as they are removed from the
    array.  Before disposing the array, the destructor clears it out
    with cut.  This behavior is avoided if the pointers are designated
    as external, or shared.  In that case it is entirely up to the
    user to free pointers left dangling by cut.  When copying the
    array, one must choose whether the copy will share with the
    original the objects referenced by the pointers (shallow copy), or
    whether the copy will have its own internal duplicates.

<p>
<b>
           ---------------   WARNING   ---------------
</b>

<p>

    The user must provide a specialization of PtrDup() for every
    polymorphic class that will instantiate this template.  Failure to
    do this may result in unexpected truncation of derived objects.
    The template methods use PtrDup() when duplication of objects is
    required, but duplicating a polymorphic object requires assistance
    from the object itself.  For example, consider class B:

<pre>
 class B { public:
  virtual B* duplicate(void) const = 0;
 };
 inline B* PtrDup(const B *b) { return b ? b->duplicate() : 0; }
</pre>

    To avoid confusion and mistakes, place the specialization
    immediately after the declaration of class B.  If class B does not
    have a duplicator use the following specialization instead:

<pre>
 inline B* PtrDup(const B *b) {
  if (b) throw sxUnimplemented("PtrDup","class B has no duplicator");
  else return 0;
 }
</pre>
*/

template<class T> class PtrVec {
public:
  /** Destructor. */

  ~PtrVec( void );

  /** Default constructor.
      optionally specify initial capacity, reallocation increment, and
      whether the pointers are internal. */

  PtrVec( bool internal=true, size_t capacity=0, size_t increment=0 );

  /** Copy constructor.
      optionally specify either a shallow copy or an internalized copy
      (the default).  The initial capacity is the current capacity of
      the duplicated array. */

  PtrVec( const PtrVec&, bool internalize = true );

  /** Copy method. does not decrease the capacity.  The copy is
      shallow if internalize is false; otherwise the referenced
      objects are duplicated and the copy is internal, in which case
      class T must have well-defined copy semantics. */

  PtrVec&	copy( const PtrVec&, bool internalize );

  /** Assignment/copy operator. does not decrease the capacity.  This
      is not a shallow copy, so class T must have well-defined copy
      semantics. */

  PtrVec&	operator =( const PtrVec &obj ) { return copy(obj,true); }

  /** Efficient array operator (const version): no bounds checking. */

  const T*&	operator ()( size_t index ) const { return (const T*&) vector_[index]; }

  /** Efficient array operator (non-const version): no bounds checking. */

  T*&		operator ()( size_t index ) { return vector_[index]; }

  /** Bounds-checking array operator (const version): throws sxBoundsError. */

  const T*&	operator []( size_t index ) const;

  /** Bounds-checking array operator (non-const version): throws sxBoundsError.
   */

  T*&		operator []( size_t index );

  /** Bounds-adjusting array operator.  Returns the array
      element at the specified index, extending the array as necessary
      to bring it within bounds.  Any new elements are set to nil. */

  T*&		at( size_t index );

  /** Returns current occupied length of array. */

  size_t	length( void ) const { return length_; }

  /** Return the number of non-NULL entries in vector.
      NOTE: this is different from length(), which also counts NULL pointers.
  */

  size_t	entries( void ) const;

  /** Append: efficiently insert given element at end of array.
      Avoids redundant initialization of new array element, except for
      when a reallocation is required.  Returns the new length. */

  size_t	append( T* );

  /** Insert new array elements.  

      count specifies the number of new elements, and offset specifies
      where in the array to insert them.  By default the new elements
      are appended.  The new elements are initialized with the nil
      pointer value.  offset refers to the end of the array: the first
      new element is located at index (length - offset).  Returns the
      new length.  Throws sxBoundsError if offset is greater than
      length. */

  size_t	insert( size_t count, size_t offset = 0 );

  /** Return the index of the next available empty slot. */

   size_t	nextEmpty();

  /** Add a new array element in the first available empty slot.  
      This should be used when the ordering of elements is not
      important and empty slots are to be minimized.  Returns the
      index of the newly inserted element. */

  size_t	add( T* );

  /** Return the index of the given element. (If it exists in
      the array, else return -1.) */

  int  	index( const T* );

  /** Remove array elements.  
      count specifies the number of elements to remove, and offset
      specifies which elements to remove.  By default elements are
      removed from the end of the array.  The unused capacity grows by
      this amount.  offset refers to the end of the array: the first
      removed element is located at index (length - offset - count).
      Returns the new length.  Throws sxBoundsError if (offset+count)
      is greater than length. */

  size_t	cut( size_t count, size_t offset = 0 );

  /** Removes the element specified by offset.
      This is basically a wrapper for the cut method 
      <pre>
      cut(1, length-offset-1)
      <pre>
  */

  void		remove( size_t offset );

  /** Replace external pointers with internal
      copies of the referenced objects.  class T must have
      well-defined copy semantics.  Does nothing if already internal. */

  void		internalize( void );

  /** Change status of pointers to external.
      Beware that internalize does not undo this; once the pointers
      are designated external they cannot just be re-designated as
      internal.  Confusion on this point will yield dangling pointers. */

  void		externalize( void );

  /** internal method: returns true if the pointers are internal. */

  bool		internal( void ) const;

  /// linear growth increment
  size_t			increment_;
  /// dynamic array of pointers
  T				**vector_;
private:
  bool				internal_;	// delete dangling pointers
  size_t			length_;	// occupied length of vector
  size_t			capacity_;	// allocated length of vector
};


/** Dynamic linear pool of objects.

    This is a template for a dynamic pool of objects.  The design is
    very similar to the dynamic array of pointers.  A pool is defined
    to be an array of pointers to preallocated default objects.
    Whenever a new object is needed, it can be accessed from the pool
    with the use() member function.  The size of the pool extends
    automatically if its initial limit is reached.  This pool is a
    linear pool, i.e. we can rely upon their index to be sequential.
    So in order to return a specific object into the pool's disposal,
    all objects having larger indices have to be free (like a reverse
    LIFO - last out first back). The free member function returns
    objects to the pool's disposal. Upon destruction, all pool objects
    are destroyed using their destructor.  It does not make sense to
    have a copy constructor or assignment op.
*/

template<class T> class LinPool {
public:
  /**  Destructor. */

  ~LinPool( void );

  /** Default constructor.
      optionally specify initial capacity,
      reallocation increment, and whether the pointers are internal.
  */

  LinPool( size_t capacity=0, size_t increment=0 );

  /** Efficient array operator (const version): no bounds checking. */

  const T*&	operator ()( size_t index ) const { return (const T*&) vector_[index]; }

  /** Efficient array operator (non-const version): no bounds checking. */

  T*&		operator ()( size_t index ) { return vector_[index]; }

  /** Bounds-checking array operator (const version): throws sxBoundsError. */

  const T*&	operator []( size_t index ) const;

  /** Bounds-checking array operator (non-const version): throws sxBoundsError.
   */

  T*&		operator []( size_t index );

  /** Use Method. Bounds-adjusting operator that returns the pool
      element as an lvalue to be used by the user. It is a combination
      of append() and at() of VarVec and PtrVec.  If the bounds of the
      pool array are reached, it is extended by increment_.
  */

  T*&		use( void );

  /** Returns current occupied length of the pool. */

  size_t	length( void ) const { return length_; }

  /** Declare pool objects as free for new use.
      If no argument is given, all elements are free to use again.
      Else, the number of elements specified is freed up from the end. */

  size_t	free( size_t count = 0) { return (length_ = count ? length_ - count : 0); }

  /// linear growth increment
  size_t			increment_;
  /// dynamic array of pointers
  T				**vector_;
private:
  size_t			length_;	// occupied length of vector
  size_t			capacity_;	// allocated length of vector
};



//#     Filename:       VarVecDef.h
//#
//#     Definitions for ValVec and PtrVec templates
//#
//#
//#     Author:         John Doug Reynolds
//#     
//#     Date:           May, 1998
//#
//#
//#
//# (c) Copyright The Johns Hopkins University 1998
//# All Rights Reserved
//#
//# The software and information contained herein are proprietary to The
//# Johns Hopkins University, Copyright 1998.  This software is furnished
//# pursuant to a written license agreement and may be used, copied,
//# transmitted, and stored only in accordance with the terms of such
//# license and with the inclusion of the above copyright notice.  This
//# software and information or any other copies thereof may not be
//# provided or otherwise made available to any other person.
//#
//#
//# Modification history:
//#
//# Peter Kunszt, Oct. 1998    Add clear() method to ValVec
//# Peter Kunszt, Feb. 1999    Add keep() method to ValVec
//#
//# Peter Kunszt, Feb. 1999    Add new template LinPool
//# Peter Kunszt, Apr. 1999    Add remove() method to ValVec
//# Peter Kunszt, Jul. 2000    Add new class VarStr

// This file defines the templates declared in VarVec.h, and should
// not be treated like a normal header file.  Include this file only
// in source modules where template instantiation will occur.

/* --- ValVec methods ------------------------------------------------------ */

// destructor

template<class T>
ValVec<T>::~ValVec( void )
{
   if ( vector_ ) {
      for ( size_t i = 0; i < capacity_; ++i ) vector_[i].~T();
      free( vector_ );
   }
   if ( pFill_ ) delete pFill_;
}

// default constructor

template<class T>
ValVec<T>::ValVec( size_t capacity, size_t increment )
{
   pFill_ = vector_ = 0;
   increment_ = length_ = capacity_ = 0;
   insert( capacity );
   increment_ = increment;
   length_ = 0;
}

// alternate constructor for defining the fill value

template<class T>
ValVec<T>::ValVec( const T &rFill, size_t capacity, size_t increment )
{
   vector_ = 0;
   increment_ = length_ = capacity_ = 0;
   pFill_ = new T(rFill);
   insert( capacity );
   increment_ = increment;
   length_ = 0;
}

// copy constructor

template<class T>
ValVec<T>::ValVec( const ValVec &orig )
{
   capacity_ = 0;
   pFill_ = vector_ = 0;
   *this = orig;
}

// assignment/copy operator

template<class T>
ValVec<T>&	ValVec<T>::operator =( const ValVec &orig )
{
   if ( &orig == this ) return *this;

   if ( orig.pFill_ )
      if ( pFill_ )
	 *pFill_ = *orig.pFill_;
      else
	 pFill_ = new T(*orig.pFill_);
   else
      if ( pFill_ ) {
	 delete pFill_;
	 pFill_ = 0;
      }

   if ( orig.capacity_ > capacity_ ) {
      increment_ = 1;
      length_ = capacity_;
      insert( orig.capacity_ - capacity_ );
   }

   for ( size_t i = 0; i < orig.length_; ++i ) vector_[i] = orig.vector_[i];

   increment_ = orig.increment_;
   length_ = orig.length_;
   return *this;
}

// bounds-checking array operator (const version)

template<class T>
const T&	ValVec<T>::operator []( size_t index ) const
{
   if ( index >= length_ )
      throw _BOUNDS_EXCEPTION( "ValVec", "vector_", length_, index );
   return vector_[index];
}

// bounds-checking array operator (non-const version)

template<class T>
T&	ValVec<T>::operator []( size_t index )	
{
   if ( index >= length_ )
      throw _BOUNDS_EXCEPTION( "ValVec", "vector_", length_, index );
   return vector_[index];
}

// at method: bounds-adjusting array operator

template<class T>
T&	ValVec<T>::at( size_t index )
{
   if ( index >= length_ ) insert( 1 + index - length_ );
   return vector_[index];
}

// append method: efficiently insert element at end of array

template<class T>
size_t	ValVec<T>::append( const T &t )
{
   (length_ < capacity_ ? vector_[length_++] : at(length_)) = t;
   return length_;
}

// insert method: insert and initialize new array elements

// Warning: if the constructor or destructor for class T throws an
// exception when invoked from this function, the affected vector is
// considered a complete loss and is left dangling.  The ValVec object
// is left in a consistent and usable state: either updated, not
// updated, or empty.  This potential memory leak is unfortunate, but
// I do not know of a better response.

template<class T>
size_t	ValVec<T>::insert( size_t count, size_t offset )
{
   if ( offset > length_ )
      throw _BOUNDS_EXCEPTION("ValVec::insert","offset greater than length");

   size_t newLength	= length_ + count;
   size_t start		= length_ - offset;
   size_t i;

   if ( newLength > capacity_ ) {
      // allocate new vector
      size_t cap = increment_ ? capacity_ + increment_ : 2 * capacity_;
      if ( newLength > cap ) cap = newLength;
      T *vec = (T*) malloc( cap * sizeof(T) );

      // bitwise copy original occupied region into new vector
      if ( length_ ) {
	 memcpy( vec, vector_, start * sizeof(T) );
	 memcpy( vec + start + count, vector_ + start, offset * sizeof(T) );
      }

      // construct newly occupied region with fill or default
      if ( pFill_ )
	 for ( i = 0; i < count; ++i ) ::new(vec+start+i) T(*pFill_);
      else
	 for ( i = 0; i < count; ++i ) ::new(vec+start+i) T;

      // construct new unoccupied region with default
      for ( i = newLength; i < cap; ++i ) ::new(vec+i) T;

      // replace old vector with new vector
      T *oldVec = vector_;
      size_t oldCap = capacity_;
      vector_ = vec;
      capacity_ = cap;

      // destroy original unoccupied region and free discarded vector
      if ( oldVec ) {
	 for ( i = length_; i < oldCap; ++i ) oldVec[i].~T();
	 free( oldVec );
      }
   }
   else if ( count ) {
	   if ( offset ) {
		   try {
			   // destroy obliterated portion of unoccupied region
			   for ( i = 0; i < count; ++i ) vector_[length_+i].~T();

			   // bitwise move displaced portion of occupied region
			   memmove(vector_+start+count, vector_+start, offset * sizeof(T));

			   // construct vacated region with fill or default
			   if ( pFill_ )
				   for ( i = 0; i < count; ++i ) ::new(vector_+start+i) T(*pFill_);
			   else
				   for ( i = 0; i < count; ++i ) ::new(vector_+start+i) T;
		   }
		   catch (...) {
			   vector_ = 0;
			   length_ = capacity_ = 0;
			   throw;
		   }
	   }
	   else if ( pFill_ ) {
		   for ( i = 0; i < count; ++i ) vector_[length_+i] = *pFill_;
	   }
   }

   return length_ = newLength;
}

// cut method: remove array elements

// Warning: see insert method warning, above, regarding a potential
// memory leak.  The only difference here is that in all cases the
// ValVec object is left empty.

template<class T>
size_t	ValVec<T>::cut( size_t count, size_t offset )
{
   if ( count + offset > length_ )
      throw _BOUNDS_EXCEPTION("ValVec::cut","count+offset greater than length");

   if ( count && offset )
      try {
	 size_t i;
	 T *start = vector_ + length_ - offset - count;

	 // destroy obliterated portion of occupied region
	 for ( i = 0; i < count; ++i ) start[i].~T();

	 // bitwise move displaced portion of occupied region
	 memmove( start, start + count, offset * sizeof(T) );

	 // construct vacated region with default
	 for ( i = 0; i < count; ++i ) ::new(start+offset+i) T;
      }
      catch (...) {
	 vector_ = 0;
	 length_ = capacity_ = 0;
	 throw;
      }

   return length_ -= count;
}

// fill method: create and return default fill value, or return existing value

template<class T>
T&	ValVec<T>::fill( void )
{
   return pFill_ ? *pFill_ : *(pFill_ = new T);
}

// fillExists method: return true if fill value exists

template<class T>
bool	ValVec<T>::fillExists( void ) const
{
	return ( pFill_ == NULL) ? false : true;
}

// unsetFill method: destroy existing fill value

template<class T>
void	ValVec<T>::unsetFill( void )
{
   if ( pFill_ ) {
      delete pFill_;
      pFill_ = 0;
   }
}

// clear method: reset every value to fill value if there is one

template<class T>
void	ValVec<T>::clear( void )
{
   if ( pFill_ ) {
     for(size_t i = 0; i < length_; i++)
       vector_[i] = *pFill_;
   }
}

// clear method: reset every value to fill value if there is one

template<class T>
void	ValVec<T>::sort( int (*compar)(const void*, const void*) )
{
  qsort(vector_, length_, sizeof(T), compar);
}

// keep method: just reset the length by count.

template<class T>
size_t	ValVec<T>::keep( size_t count )
{
   if ( count > length_ )
      throw _BOUNDS_EXCEPTION("ValVec::keep","count greater than length");

  return length_ -= count;
}

// remove method: call cut

template<class T>
void	ValVec<T>::remove( size_t offset )
{
   if ( offset >= length_ )
      throw _BOUNDS_EXCEPTION("ValVec::remove","count greater than length");

   cut(1, length_ - offset - 1);
   return;
}

/* --- PtrVec methods ------------------------------------------------------ */

// destructor

template<class T>
PtrVec<T>::~PtrVec( void )
{
   cut( length_ );
   if ( vector_ ) delete [] vector_;
}

// default constructor

template<class T>
PtrVec<T>::PtrVec( bool internal, size_t capacity, size_t increment )
{
   length_ = capacity_ = 0;
   increment_ = increment;
   internal_ = internal;
   if(capacity) {
     vector_ = new T* [capacity];
     for(size_t i = 0; i < capacity; i++) vector_[i] = NULL;
   } else {
     vector_ = NULL;
   }
   capacity_ = capacity;
}

// copy constructor

template<class T>
PtrVec<T>::PtrVec( const PtrVec &obj, bool internalize )
{
   vector_ = 0;
   length_ = capacity_ = 0;
   copy( obj, internalize );
}

// copy method: make either local or shared copy of external pointers

template<class T>
PtrVec<T>&	PtrVec<T>::copy( const PtrVec &obj, bool internalize )
{
   if ( &obj == this ) {
      if ( internalize != internal_ )
	 throw _INTERFACE_EXCEPTION("PtrVec::copy"
			,"attempt to ex/in-ternalize by self-assignment");
      return *this;
   }

   cut( length_ );
   increment_ = obj.increment_;
   internal_ = internalize;

   if ( obj.capacity_ > capacity_ ) {
      if ( vector_ ) delete [] vector_;
      capacity_ = 0;
      vector_ = new T* [obj.capacity_];
      for(size_t j = 0; j < obj.capacity_; j++) vector_[j] = NULL;
      capacity_ = obj.capacity_;
   }

   if ( internalize ) {
      for ( size_t i = 0; i < obj.length_; ++i )
	 vector_[i] = PtrDup( obj.vector_[i] );
   } else
      memcpy( vector_, obj.vector_, obj.length_ * sizeof(T*) );

   length_ = obj.length_;
   return *this;
}

// bounds-checking array operator (const version)

template<class T>
const T*&	PtrVec<T>::operator []( size_t index ) const
{
   if ( index >= length_ )
      throw _BOUNDS_EXCEPTION( "PtrVec", "vector_", length_, index );
   return (const T*&) vector_[index];
}

// bounds-checking array operator (non-const version)

template<class T>
T*&	PtrVec<T>::operator []( size_t index )	
{
   if ( index >= length_ )
      throw _BOUNDS_EXCEPTION( "PtrVec", "vector_", length_, index );
   return vector_[index];
}

// at method: bounds-adjusting array operator

template<class T>
T*&	PtrVec<T>::at( size_t index )
{
   if ( index >= length_ ) insert( 1 + index - length_ );
   return vector_[index];
}

// entries method: return the number of non-NULL entries in vector
// NOTE: this is different from length(), which also counts NULL pointers.

template<class T>
size_t	PtrVec<T>::entries( void ) const
{
  size_t i, nEntries = 0;
  for( i = 0; i < length_; i++ )
    if( vector_[i] )
      nEntries++;
  return nEntries;
}

// append method: efficiently insert element at end of array

template<class T>
size_t	PtrVec<T>::append( T *t )
{
   (length_ < capacity_ ? vector_[length_++] : at(length_)) = t;
   return length_;
}

// insert method: insert and initialize new array elements

template<class T>
size_t	PtrVec<T>::insert( size_t count, size_t offset )
{
   if ( offset > length_ )
      throw _BOUNDS_EXCEPTION("PtrVec::insert","offset greater than length");

   size_t newLength	= length_ + count;
   size_t start		= length_ - offset;

   if ( newLength > capacity_ ) {
      size_t cap = increment_ ? capacity_ + increment_ : 2 * capacity_;
      if ( newLength > cap ) cap = newLength;
      T **vec = new T* [cap];
      for(size_t j = 0; j < cap; j++) vec[j] = NULL;
      if ( vector_ ) {
	 memcpy( vec, vector_, start * sizeof(T*) );
	 memcpy( vec + start + count, vector_ + start, offset * sizeof(T*) );
	 delete [] vector_;
      }
      capacity_ = cap;
      vector_ = vec;
   }
   else if ( count )
      memmove( vector_ + start + count, vector_ + start, offset * sizeof(T*) );

   memset( vector_ + start, 0, count * sizeof(T*) );

   return length_ = newLength;
}


// nextEmpty method: return index of next available (empty) slot in vector.

template<class T>
size_t	PtrVec<T>::nextEmpty()
{
  size_t empty;
  for( empty = 0; empty < length_; empty++ )
    if( vector_[empty] == NULL )
      break;
  return empty;
}

 
// add method: add given element into first available empty slot.

template<class T>
size_t	PtrVec<T>::add( T *t )
{
  size_t index;
  if( (index = nextEmpty()) == length_ ) 
    append( t );
  else
    vector_[index] = t;
  return index;
}

// index method: return the index of the given element if it exists in the
//               array, else return -1.

template<class T>
int   	PtrVec<T>::index( const T *t )
{
  size_t index;
  for( index = 0; index < length_; index++ )
    if( vector_[index] == t )
      return index;
  return -1;
}

// cut method: remove array elements

template<class T>
size_t	PtrVec<T>::cut( size_t count, size_t offset )
{
   if ( count + offset > length_ )
      throw _BOUNDS_EXCEPTION("PtrVec::cut","count+offset greater than length");

   if ( count ) {
      T **start = vector_ + length_ - offset - count;
      if ( internal_ )
	 for ( size_t i = 0; i < count; ++i ) if ( start[i] ) delete start[i];
      memmove( start, start + count, offset * sizeof(T*) );
   }

   return length_ -= count;
}

// remove method: call cut

template<class T>
void	PtrVec<T>::remove( size_t offset )
{
   if ( offset >= length_ )
      throw _BOUNDS_EXCEPTION("PtrVec::remove","count greater than length");

   cut(1, length_ - offset - 1);
   return;
}

// internalize method: replace shared pointers with local copies

template<class T>
void	PtrVec<T>::internalize( void )
{
   if ( ! internal_ ) {
      for ( size_t i = 0; i < length_; ++i )
	 vector_[i] = PtrDup( vector_[i] );
      internal_ = true;
   }
}

// externalize method: change status of pointers from local to shared

template<class T>
void	PtrVec<T>::externalize( void )
{
   internal_ = false;
}

// internal method: return true if pointers are local

template<class T>
bool	PtrVec<T>::internal( void ) const
{
   return internal_;
}


/* --- LinPool methods ----------------------------------------------------- */

// destructor

template<class T>
LinPool<T>::~LinPool( void )
{
  // delete all objects from pool capacity
  for ( size_t i = 0; i < capacity_; ++i )
    if ( vector_[i] ) delete vector_[i]; // failsafe - if someone deletes above

  if ( vector_ ) delete [] vector_;
}

// default constructor

template<class T>
LinPool<T>::LinPool( size_t capacity, size_t increment )
{
   length_ = capacity_ = 0;
   increment_ = increment;
   vector_ = capacity ? new T* [capacity] : 0;
   capacity_ = capacity;
   // generate new objects for the capacity
   for ( size_t i = 0; i < capacity; i++ )
     vector_[i] = new T;
}

// bounds-checking array operator (const version)

template<class T>
const T*&	LinPool<T>::operator []( size_t index ) const
{
   if ( index >= length_ )
      throw _BOUNDS_EXCEPTION( "LinPool", "vector_", length_, index );
   return (const T*&) vector_[index];
}

// bounds-checking array operator (non-const version)

template<class T>
T*&	LinPool<T>::operator []( size_t index )	
{
   if ( index >= length_ )
      throw _BOUNDS_EXCEPTION( "LinPool", "vector_", length_, index );
   return vector_[index];
}

// use method: bounds-adjusting function

template<class T>
T*&	LinPool<T>::use( void )
{
  if(length_ == capacity_) { // last element reached, extend!
    size_t cap = increment_ ? capacity_ + increment_ : 2 * capacity_;
    T **vec = new T* [cap];
    if ( vector_ ) {
      memcpy( vec, vector_, capacity_ * sizeof(T*) );
      delete [] vector_;
    }
    for( size_t i = capacity_; i < cap; i++)
      vec[i] = new T;
    capacity_ = cap;
    vector_ = vec;
  }
  return vector_[length_++];
}


#endif /* VARVEC_H */
