//#     Filename:       SpatialConstraint.cpp
//#
//#     The SpatialConstraint, SpatialSign
//#     classes are defined here.
//#
//#     Author:         Peter Z. Kunszt based on A. Szalay's code
//#     
//#     Date:           October 23, 1998
//#
//#
//#
//# (c) Copyright The Johns Hopkins University 1998
//# All Rights Reserved
//#
//# The software and information contained herein are proprietary to The
//# Johns Hopkins University, Copyright 1998.  This software is furnished
//# pursuant to a written license agreement and may be used, copied,
//# transmitted, and stored only in accordance with the terms of such
//# license and with the inclusion of the above copyright notice.  This
//# software and information or any other copies thereof may not be
//# provided or otherwise made available to any other person.
//#
//#
//#     Modification History:
//#
#include "SpatialConstraint.h"
#include "SpatialException.h"

#define COMMENT '#'

// ===========================================================================
//
// Member functions for class SpatialSign
//
// ===========================================================================

/////////////CONSTRUCTOR//////////////////////////////////
//
SpatialSign::SpatialSign(Sign sign) : sign_(sign) {
}

/////////////COPY CONSTRUCTOR/////////////////////////////
//
SpatialSign::SpatialSign(const SpatialSign & oldSign) : sign_(oldSign.sign_) {
}

/////////////ASSIGNMENT///////////////////////////////////
//
SpatialSign &
SpatialSign::operator =(const SpatialSign & oldSign) {
  if( & oldSign != this)sign_ = oldSign.sign_;
  return *this;
}

// ===========================================================================
//
// Member functions for class SpatialConstraint
//
// ===========================================================================

/////////////CONSTRUCTOR//////////////////////////////////
//
SpatialConstraint::SpatialConstraint(SpatialVector a, float64 d) :
  a_(a), d_(d)
{
  a_.normalize();
  s_ = acos(d_);
  if(d_ <= -gEpsilon) sign_ = nEG;
  if(d_ >=  gEpsilon) sign_ = pOS;
}

/////////////COPY CONSTRUCTOR/////////////////////////////
//
SpatialConstraint::SpatialConstraint(const SpatialConstraint & old) :
  a_(old.a_), d_(old.d_), s_(old.s_) {
  sign_ = old.sign_;
}

/////////////ASSIGNMENT///////////////////////////////////
//
SpatialConstraint &
SpatialConstraint::operator =(const SpatialConstraint & old)
{
  if ( &old != this ) { // beware of self-assignment
    a_ = old.a_;
    d_ = old.d_;
    s_ = old.s_;
    sign_ = old.sign_;
  }
  return *this;
}

/////////////CONTAINS/////////////////////////////////////
// check whether a vector is inside this
//
bool 
SpatialConstraint::contains(const SpatialVector v) {
    if ( acos(v * a_) < s_ ) return true;
    return false;
}

/////////////INVERT///////////////////////////////////////
//
void
SpatialConstraint::invert() {
  d_ = -d_;
  s_ = acos(d_);
  if(sign_ == nEG) sign_ = pOS;
  if(sign_ == pOS) sign_ = nEG;
}

/////////////READ/////////////////////////////////////////
//
void
SpatialConstraint::read(std::istream &in) {

  in.setf(std::ios::skipws);
  while(in.peek() == COMMENT)  // ignore comments
      in.ignore(10000,'\n');
  in >> a_ >> d_ ;
  if(!in.good())
    throw SpatialFailure("SpatialConstraint:read: Could not read constraint");
  a_.normalize();
  s_ = acos(d_);
  if     (d_ <= -gEpsilon) sign_ = nEG;
  else if(d_ >=  gEpsilon) sign_ = pOS;
  else                sign_ = zERO;
}


/////////////READ/////////////////////////////////////////
//
void
SpatialConstraint::readRaDec(std::istream &in) {

  while(in.peek() == COMMENT)  // ignore comments
      in.ignore(10000,'\n');
  float64 ra,dec;
  in >> ra >> dec >> d_ ; in.ignore();
  a_.set(ra,dec);
  s_ = acos(d_);
  if     (d_ <= -gEpsilon) sign_ = nEG;
  else if(d_ >=  gEpsilon) sign_ = pOS;
  else                sign_ = zERO;
}

/////////////set ra,dec E.S.S./////////////////////////////////////////
//

void
SpatialConstraint::setRaDecD(float64 ra, float64 dec, float64 d) {
  
  a_.set(ra,dec);
  d_ = d;
  s_ = acos(d_);

  if     (d_ <= -gEpsilon) sign_ = nEG;
  else if(d_ >=  gEpsilon) sign_ = pOS;
  else                sign_ = zERO;
}


/////////////WRITE////////////////////////////////////////
//
void
SpatialConstraint::write(std::ostream &out) const {
  size_t p = out.precision();
  out.precision(16);
  out << a_ << ' ' << d_ << "\n";
  out.precision(p);
}

/////////////>>///////////////////////////////////////////
// read from istream
//
std::istream& operator >>( std::istream& in, SpatialConstraint & c) {
  c.read(in);
  return(in);
}

/////////////<<///////////////////////////////////////////
// write to ostream
//
std::ostream& operator <<( std::ostream& out, const SpatialConstraint & c) {
  c.write(out);
  return(out);
}
