//#     Filename:       SpatialConvex.cpp
//#
//#     The SpatialConvex
//#     classes are defined here.
//#
//#     Author:         Peter Z. Kunszt based on A. Szalay's code
//#     
//#     Date:           October 23, 1998
//#
//#
//#
//# (c) Copyright The Johns Hopkins University 1998
//# All Rights Reserved
//#
//# The software and information contained herein are proprietary to The
//# Johns Hopkins University, Copyright 1998.  This software is furnished
//# pursuant to a written license agreement and may be used, copied,
//# transmitted, and stored only in accordance with the terms of such
//# license and with the inclusion of the above copyright notice.  This
//# software and information or any other copies thereof may not be
//# provided or otherwise made available to any other person.
//#
//#
//#     Modification History:
//#
//#define DIAGNOSE
#include "SpatialConvex.h"

#define N(n)	index_->nodes_.vector_[(n)]		 // the node[n]
#define NC(n,m)	index_->nodes_.vector_[(n)].childID_[(m)]// the children n->m
#define NV(m)   index_->nodes_.vector_[id].v_[(m)]       // the vertices of n
#define V(m)    index_->vertices_.vector_[(m)]           // the vertex vector m

#define SGN(x) ( (x)<0? -1: ( (x)>0? 1:0 ) )		 // signum
#define IOFFSET 9
#define COMMENT '#'
// ===========================================================================
//
// Member functions for class SpatialConvex
//
// ===========================================================================


SpatialConvex::SpatialConvex()
{
}

/////////////COPY CONSTRUCTOR/////////////////////////////
//
SpatialConvex::SpatialConvex(const SpatialConvex & c) :
	index_(c.index_), 
	boundingCircle_(c.boundingCircle_),
	addlevel_(c.addlevel_), 
	full_(c.full_), 
	partial_(c.partial_), 
	flist_(c.flist_), 
	plist_(c.plist_)
{
  constraints_ = c.constraints_;
  corners_ = c.corners_;
  bitresult_ = c.bitresult_;
  sign_ = c.sign_;
}

/////////////ASSIGNMENT///////////////////////////////////
//
SpatialConvex&
SpatialConvex::operator =(const SpatialConvex & c)
{
  if(&c == this)return *this;
  index_ = c.index_;
  addlevel_ = c.addlevel_;
  full_ = c.full_;
  partial_ = c.partial_;
  flist_ = c.flist_;
  plist_ = c.plist_;
  boundingCircle_ = c.boundingCircle_;
  constraints_ = c.constraints_;
  corners_ = c.corners_;
  bitresult_ = c.bitresult_;
  sign_ = c.sign_;
  return *this;
}

/////////////CONSTRUCTOR FROM A TRIANGLE//////////////////
//
// Initialize domain from a triangle. The corners of these vectors
// form a triangle, so we just add three ZERO convexes to the domain
// where the direction is given by the cross product of the corners.
// Of course, the sign has to be determined (on which side of the triangle
// are we?) If the three points lie on one line, no convexes are added.
//
SpatialConvex::SpatialConvex(const SpatialVector * v1,
			     const SpatialVector * v2,
			     const SpatialVector * v3)
{
  SpatialVector a1 = (*v2) ^ (*v3); // set directions of half-spheres
  SpatialVector a2 = (*v3) ^ (*v1);
  SpatialVector a3 = (*v1) ^ (*v2);
  float64 s1 = a1 * (*v1);          // we really need only the signs of these
  float64 s2 = a2 * (*v2);
  float64 s3 = a3 * (*v3);

  if(s1 * s2 * s3) {                // this is nonzero if not on one line
    if(s1 < 0.0L) a1 = (-1) * a1 ;  // change sign if necessary
    if(s2 < 0.0L) a2 = (-1) * a2 ;
    if(s3 < 0.0L) a3 = (-1) * a3 ;
    constraints_.append(SpatialConstraint(a1,0.0)); // we don't care about the
    constraints_.append(SpatialConstraint(a2,0.0)); // order since all angles are
    constraints_.append(SpatialConstraint(a3,0.0)); // 90 degrees.
  }
  sign_ = zERO;
}

/////////////CONSTRUCTOR FROM A RECTANGLE/////////////////
//
// Initialize convex from a rectangle. The vectors that form a rectangle
// may be in any order, the code finds the edges by itself.
// If one of the vectors lies within the triangle formed by the
// other three vectors, the previous constructor is used.
//
SpatialConvex::SpatialConvex(const SpatialVector * v1,
			     const SpatialVector * v2,
			     const SpatialVector * v3,
			     const SpatialVector * v4)
{
  int i,j,k,l,m;  // indices
  // to simplify things, copy input into a 4-array
  const SpatialVector *v[4] = {v1,v2,v3,v4};
  SpatialVector d[6];
  float64 s[6][2];
  for (i = 0, k = 0; i < 4 ; i++)
    for (j = i+1; j < 4; j++, k++) {    // set directions of half-spheres
      d[k] = (*v[i]) ^ (*v[j]);    // two of these are diagonals.
      d[k].normalize();
      for (l = 0, m = 0; l < 4; l++)
	if(l != i && l != j)s[k][m++] = d[k] * (*v[l]); // set the 'sign'
    }

  // the sides are characterized by having both other corners
  // to the same (inner) side. so it is easy to find the edges.
  // again, the sign has to be taken care of -> direction of d
  // the nice thing here is that if one of the corners is inside
  // a triangles formed by the other three, only 3 constraints get
  // added.
  for(i = 0; i < 6; i++)
    if(s[i][0] * s[i][1] > 0.0) // not >= because we don't want aligned corners
      constraints_.append(SpatialConstraint((s[i][0] > 0.0 ? 
					        d[i] : (-1 * d[i])),
					    0.0));

  // Special cases: 1
  // if three of the corners are aligned, we end up with
  // only two constraints. Find the third and append it.
  // Indeed, there are 3 identical constraints among the d[],
  // so the first that qualifies gets appended.
  if(constraints_.length() == 2) {
    for(i = 0; i < 6; i++)
      if(s[i][0] == 0.0 || s[i][1] == 0.0) {
	constraints_.append(SpatialConstraint( ((s[i][0]+s[i][1]) > 0.0 ? 
					          d[i] : (-1 * d[i])), 
					       0.0));
	break;
      }
  }
  // Special cases: 2
  // if all four corners are aligned, no constraints have been appended.
  sign_ = zERO;
}

/////////////ADD//////////////////////////////////////////
//
void
SpatialConvex::add(SpatialConstraint & c)
{
  constraints_.append(c);
  // order constraints: by ascending opening angle. Since we append
  // always at the end, we only need one ordering sweep starting at
  // the end
  for ( size_t i = constraints_.length() - 1; i > 0; i-- ) {
    if ( constraints_.vector_[i].s_ <  constraints_.vector_[i-1].s_ ) {
      SpatialConstraint tmp( constraints_.vector_[i] );
      constraints_.vector_[i] = constraints_.vector_[i-1];
      constraints_.vector_[i-1] = tmp;
    }
  }

  if(constraints_.length() == 1) {  // first constraint
    sign_ = c.sign_;
    return;
  }

  switch (sign_) {
	  case nEG:
		  if(c.sign_ == pOS) sign_ = mIXED;
		  break;
	  case pOS:
		  if(c.sign_ == nEG) sign_ = mIXED;
		  break;
	  case zERO:
		  sign_ = c.sign_;
		  break;
	  case mIXED:
		  break;
  }
}


/////////////SIMPLIFY0////////////////////////////////////
// simplify0: simplify zERO convexes. calculate corners of convex
// and the bounding circle.
//
// zERO convexes are made up of constraints which are all great
// circles. It can happen that some of the constraints are redundant.
// For example, if 3 of the great circles define a triangle as the convex
// which lies fully inside the half sphere of the fourth constraint,
// that fourth constraint is redundant and will be removed.
//
// The algorithm is the following:
//
// zero-constraints are half-spheres, defined by a single normalized
// vector v, pointing in the direction of that half-sphere.
//
// Two zero-constraints intersect at 
//
//    i    =  +- v  x v
//     1,2        1    2
//
// the vector cross product of their two defining vectors. 
//
// The two vectors i1,2 are tested against every other constraint in
// the convex if they lie within their half-spheres. Those
// intersections i which lie within every other constraint, are stored
// into corners_.
//
// Constraints that do not have a single corner on them, are dropped.
//

void
SpatialConvex::simplify0() {

  size_t i,j,k;
  SpatialVector vi1, vi2;
  ValVec<size_t> cornerConstr1, cornerConstr2, removeConstr;
  ValVec<SpatialVector> corner;
  if (constraints_.length() == 1) { // for one constraint, it is itself the BC
    boundingCircle_ = constraints_(0);
    return;
  // For 2 constraints, take the bounding circle a 0-constraint...
  // this is by no means optimal, but the code is optimized for at least
  // 3 zERO constraints... so this is acceptable.
  } else if(constraints_.length() == 2) {
    // test for constraints being identical - rule 1 out
    if(constraints_.vector_[0].a_ == constraints_.vector_[1].a_){
      constraints_.cut(1);
      boundingCircle_ = constraints_(0);
      return;
    }
    // test for constraints being two disjoint half spheres - empty convex!
    if(constraints_.vector_[0].a_ == (-1.0)*constraints_.vector_[1].a_){
      constraints_.cut(constraints_.length());
      return;
    }
    boundingCircle_ = SpatialConstraint(constraints_(0).v() + 
					constraints_(1).v(),0);
    return;
  }

  // Go over all pairs of constraints
  for(i = 0; i < constraints_.length() - 1; i++) {
    bool ruledout = true;
    for(j = i+1; j < constraints_.length(); j ++) {
      // test for constraints being identical - rule i out
      if(constraints_.vector_[i].a_ == constraints_.vector_[j].a_)break;
      // test for constraints being two disjoint half spheres - empty convex!
      if(constraints_.vector_[i].a_ == (-1.0)*constraints_.vector_[j].a_){
	constraints_.cut(constraints_.length());
	return;
      }
      // vi1 and vi2 are their intersection points
      vi1 = constraints_.vector_[i].a_ ^ constraints_.vector_[j].a_ ;
      vi1.normalize();
      vi2 = (-1.0) * vi1;
      bool vi1ok = true, vi2ok = true;
      // now test whether vi1 or vi2 or both are inside every other constraint.
      // if yes, store them in the corner array.
      for(k = 0; k < constraints_.length(); k++) {
	if(k == i || k == j) continue;
	if(vi1ok && vi1 * constraints_.vector_[k].a_ <= 0.0) vi1ok = false;
	if(vi2ok && vi2 * constraints_.vector_[k].a_ <= 0.0) vi2ok = false;
	if(!vi1ok && !vi2ok)break;
      }
      if(vi1ok) { 
	corner.append(vi1); 
	cornerConstr1.append(i);
	cornerConstr2.append(j);
	ruledout = false; 
      }
      if(vi2ok) { 
	corner.append(vi2); 
	cornerConstr1.append(i);
	cornerConstr2.append(j);
	ruledout = false; 
      }
    }
    // is this constraint ruled out? i.e. none of its intersections
    // with other constraints are corners... remove it from constraints_ list.
    if(ruledout) removeConstr.append(i);
  }

  // Now set the corners into their correct order, which is an
  // anti-clockwise walk around the polygon.
  //
  // start at any corner. so take the first.

  corners_.cut(corners_.length());
  corners_.append(corner(0));
  // The trick is now to start off into the correct direction.
  // this corner has two edges it can walk. we have to take the
  // one where the convex lies on its left side.
  i = cornerConstr1(0);		// the i'th constraint and j'th constraint
  j = cornerConstr2(0);		// intersect at 0'th corner
  size_t c1=0,c2=0,k1=0,k2=0;
  // Now find the other corner where the i'th and j'th constraints intersect.
  // Store the corner in vi1 and vi2, and the other constraint indices 
  // in c1,c2.
  for( k = 1; k < cornerConstr1.length(); k ++) {
    if(cornerConstr1(k) == i) {
      vi1 = corner(k);
      c1 = cornerConstr2(k);
      k1 = k;
    }
    if(cornerConstr2(k) == i) {
      vi1 = corner(k);
      c1 = cornerConstr1(k);
      k1 = k;
    }
    if(cornerConstr1(k) == j) {
      vi2 = corner(k);
      c2 = cornerConstr2(k);
      k2 = k;
    }
    if(cornerConstr2(k) == j) {
      vi2 = corner(k);
      c2 = cornerConstr1(k);
      k2 = k;
    }
  }
  // Now test i'th constraint-edge ( corner 0 and corner k ) whether
  // it is on the correct side (left)
  //
  //  ( (corner(k) - corner(0)) x constraint(i) ) * corner(0)
  //
  // is >0 if yes, <0 if no...
  //
  size_t c,currentCorner;
  if( ((vi1 - corner(0)) ^ constraints_(i).a_) * corner(0) > 0 ) {
    corners_.append(vi1);
    c = c1;
    currentCorner = k1;
  } else {
    corners_.append(vi2);
    c = c2;
    currentCorner = k2;
  }
  // now append the corners that match the index c until we got corner 0 again
  // currentCorner holds the current corners index
  // c holds the index of the constraint that has just been intersected with
  // So:
  // x We are on a constraint now (i or j from before), the second corner
  //   is the one intersecting with constraint c.
  // x Find other corner for constraint c.
  // x Save that corner, and set c to the constraint that intersects with c
  //   at that corner. Set currentcorner to that corners index.
  // x Loop until 0th corner reached.
  while( currentCorner ) {
    for (k = 0; k < cornerConstr1.length(); k++) {
      if(k == currentCorner)continue;
      if(cornerConstr1(k) == c) {
	if( (currentCorner = k) == 0) break;
	corners_.append(corner(k));
	c = cornerConstr2(k);
	break;
      }
      if(cornerConstr2(k) == c) {
	if( (currentCorner = k) == 0) break;
	corners_.append(corner(k));
	c = cornerConstr1(k);
	break;
      }
    }
  }
  // Remove all redundant constraints
  for ( i = 0; i < removeConstr.length(); i++)
    constraints_.remove(removeConstr(i));

  // Now calculate the bounding circle for the convex.
  // We take it as the bounding circle of the triangle with
  // the widest opening angle. All triangles made out of 3 corners
  // are considered.
  boundingCircle_.d_ = 1.0;
  if (constraints_.length() >=3 ) {
    for(i = 0; i < corners_.length(); i++)
      for(j = i+1; j < corners_.length(); j++)
	for(k = j+1; k < corners_.length(); k++) {
	  SpatialVector v = ( corners_(j) - corners_(i) ) ^ 
	                    ( corners_(k) - corners_(j) );
	  v.normalize();
	  // Set the correct opening angle: Since the plane cutting
	  // out the triangle also correctly cuts out the bounding cap
	  // of the triangle on the sphere, we can take any corner to
	  // calculate the opening angle
	  float64 d = v * corners_(i);
	  if(boundingCircle_.d_ > d) boundingCircle_ = SpatialConstraint(v,d);
	}
  }

#ifdef DIAGNOSE
  for(i = 0; i < corners_.length(); i++) {
    //cout << corners_(i).ra() << "," << corners_(i).dec() << ":" << corners_(i) << "\n";
  }
#endif
    
}

/////////////SIMPLIFY/////////////////////////////////////
// simplify: We have the following decision tree for the 
//           simplification of convexes:
//
//  Always test two constraints against each other. We have
//
//  * If both constraints are pOS
//
//     # If they intersect: keep both
//
//     # If one lies in the other: drop the larger one
//
//     # Else: disjunct. Empty convex, stop.
//
//  * If both constraints are nEG
//
//     # If they intersect or are disjunct: ok
//
//     # Else: one lies in the other, drop smaller 'hole'
//
//  * Mixed: one pOS, one nEG
//
//     # No intersection, disjunct: pOS is redundant
//
//     # Intersection: keep both
//
//     # pOS within nEG: empty convex, stop.
//
//     # nEG within pOS: keep both.
//

void
SpatialConvex::simplify() {

  if(sign_ == zERO) {
    simplify0();	// treat zERO convexes separately
    return;
  }

  size_t i,j;
  size_t clen;
  bool redundancy = true;

  while(redundancy) {
    redundancy = false;
    clen = constraints_.length();

  for(i = 0; i < clen; i++) {
    for(j = 0; j < i; j++) {
      int test;

      // don't bother with two zero constraints
      if( constraints_[i].sign_ == zERO && constraints_[j].sign_ == zERO)
	continue;

      // both pos or zero
      if( ( constraints_[i].sign_ == pOS || constraints_[i].sign_ == zERO ) &&
	  ( constraints_[j].sign_ == pOS || constraints_[j].sign_ == zERO ) ) {
	if ( (test = testConstraints(i,j)) == 0 ) continue; // intersection
	if ( test < 0 ) { // disjoint ! convex is empty
	  constraints_.cut(constraints_.length());
	  return;
	}
	// one is redundant
	if(test == 1)   constraints_.cut(1, clen - 1 - i);
	else if(test==2)constraints_.cut(1, clen - 1 - j);
	else continue;     // intersection
	redundancy = true; // we did cut out a constraint -> do the loop again
	break;
      }

      // both neg or zero
      if( ( constraints_[i].sign_ == nEG ) &&
	  ( constraints_[j].sign_ == nEG ) ) {
	if ( (test = testConstraints(i,j)) <= 0 ) continue; // ok
	// one is redundant
	if(test == 1)   constraints_.cut(1, clen - 1 - j);
	else if(test==2)constraints_.cut(1, clen - 1 - i);
	else continue; // intersection
	redundancy = true; // we did cut out a constraint -> do the loop again
	break;
      }

      // one neg, one pos/zero
      if( (test = testConstraints(i,j)) == 0) continue; // ok: intersect
      if( test < 0 ) { // neg is redundant
	if ( constraints_[i].sign_ == nEG ) constraints_.cut(1, clen - 1 - i);
	else    constraints_.cut(1, clen - 1 - j);
	redundancy = true; // we did cut out a constraint -> do the loop again
	break;
      }
      // if the negative constraint is inside the positive: continue
      if ( (constraints_[i].sign_ == nEG && test == 2) || 
	   (constraints_[j].sign_ == nEG && test == 1) )continue;
      // positive constraint in negative: convex is empty!
      constraints_.cut(constraints_.length());
      return;
    }
    if(redundancy)break;
  }

  }

  // reset the sign of the convex
  sign_ = constraints_[0].sign_;
  for(i = 1; i < constraints_.length(); i++) {
	  switch (sign_) {
		  case nEG:
			  if(constraints_[i].sign_ == pOS) sign_ = mIXED;
			  break;
		  case pOS:
			  if(constraints_[i].sign_ == nEG) sign_ = mIXED;
			  break;
		  case zERO:
			  sign_ = constraints_[i].sign_;
			  break;
		  case mIXED:
			  break;
	  }
  }

  if (constraints_.length() == 1) // for one constraint, it is itself the BC
    boundingCircle_ = constraints_(0);
  else if (sign_ == pOS)
    boundingCircle_ = constraints_(0);
    
}

/////////////TESTCONSTRAINTS//////////////////////////////
// testConstraints: Test for the relative position of two constraints.
//                  Returns 0  if they intersect
//                  Returns -1 if they are disjoint
//                  Returns 1  if j is in i
//                  Returns 2  if i is in j
//
int
SpatialConvex::testConstraints(size_t i, size_t j) {

  float64 phi = (
	 (constraints_[i].sign_ == nEG ? (-1 * constraints_[i].a_):
	                               constraints_[i].a_ )
	  *
         (constraints_[j].sign_ == nEG ? (-1 * constraints_[j].a_):
	                               constraints_[j].a_ )
	        );
  phi = (phi <= -1.0L + gEpsilon ? gPi : acos(phi)) ; // correct for math lib -1.0
  float64 a1 = (constraints_[i].sign_ == pOS ? 
		constraints_[i].s_ : gPi-constraints_[i].s_);
  float64 a2 = (constraints_[j].sign_ == pOS ? 
		    constraints_[j].s_ : gPi-constraints_[j].s_);

  if ( phi > a1 + a2 ) return -1;
  if ( a1 > phi + a2 ) return 1;
  if ( a2 > phi + a1 ) return 2;
  return 0;
}

/////////////INTERSECT////////////////////////////////////
//
void
SpatialConvex::intersect(const SpatialIndex * idx,
			 BitList * partial, BitList * full) {
  index_ = idx;
  addlevel_ = idx->maxlevel_ - idx->buildlevel_;
  partial_ = partial;
  full_ = full;
  bitresult_ = true;
  range_ = false;

  doIntersect();
}

/////////////INTERSECT////////////////////////////////////
//
void
SpatialConvex::intersect(const SpatialIndex * idx,
			 ValVec<uint64> * partial, ValVec<uint64> * full) {
  index_ = idx;
  addlevel_ = idx->maxlevel_ - idx->buildlevel_;
  plist_ = partial;
  flist_ = full;
  bitresult_ = false;
  range_ = false;

  doIntersect();
}

/////////////INTERSECT////////////////////////////////////
//
void
SpatialConvex::intersect(const SpatialIndex * idx,
			 ValVec<uint64> * idList) {

  index_ = idx;
  addlevel_ = idx->maxlevel_ - idx->buildlevel_;
  plist_ = idList;
  bitresult_ = false;
  range_ = true;

  doIntersect();
}

/////////////DOINTERSECT//////////////////////////////////
//
void
SpatialConvex::doIntersect() {

  simplify();				// don't work too hard...

  if(constraints_.length()==0)return;   // nothing to intersect!!

  // Start with root nodes (index = 1-8) and intersect triangles
  for(uint32 i = 1; i <= 8; i++)
    triangleTest(i);

}

/////////////TRIANGLETEST/////////////////////////////////
// triangleTest: this is the main test of a triangle vs a Convex.  It
// will properly mark up the flags for the triangular node[index], and
// all its children

SpatialMarkup
SpatialConvex::triangleTest(uint64 id)
{
  SpatialMarkup mark;
//
// do the face test on the triangle

  mark =  testNode(V(NV(0)),V(NV(1)),V(NV(2)));

// do we have a final result code?
// if rEJECT, fULL then return

  if(mark > fULL) return mark;

  if(mark == fULL) {
      fillChildren(id); // propagate final result to children
      return mark;
  }

// if pARTIAL or dONTKNOW, then continue, test children,
//    but do not reach beyond the leaf nodes.
//    If Convex is fully contained within one (sWALLOWED),
//    we can stop looking further in another child

  if (NC(id,0)!=0) {
    triangleTest(NC(id,0));
    triangleTest(NC(id,1));
    triangleTest(NC(id,2));
    triangleTest(NC(id,3));
// we are at the leafnodes
// If we have to recurse further, calculate intersections one by one
// If not, just set the proper bit in partial_ or append id to plist_.
  } else {
    if(addlevel_) {
      // from now on, continue to build the triangles dynamically.
      // until maxlevel_ levels depth.
      testPartial(addlevel_, N(id).id_, V(NV(0)), V(NV(1)), V(NV(2)));

    } else {
      if(bitresult_)
	partial_->set((uint32)index_->leafNumberById(N(id).id_),true);
      else
	plist_->append(N(id).id_);
    }
  }

  return mark;
}

/////////////FILLCHILDREN/////////////////////////////////
// fillChildren: mark children as full
//
void
SpatialConvex::fillChildren(uint64 id) {
  if(range_)
    plist_->append(N(id).id_);
  else {
    if(NC(id,0)!=0) {
      for(size_t i = 0; i < 4; i++) {
	fillChildren(NC(id,i));
      }
    } else {
      // we are at the leaf. If we still have levels to recurse,
      // fill them. If not, just set the full_ bitlist's or flist_ list's
      // value correctly.
      if(addlevel_)
	setfull(N(id).id_,addlevel_);
      else {
	if(bitresult_)
	  full_->set((uint32)index_->leafNumberById(N(id).id_), true);
	else
	  flist_->append(N(id).id_);
      }
    }
  }
}

/////////////SETFULL//////////////////////////////////////
// setfull: set the bitlist leaves at level maxlevel to full.
// if we have still levels to go, recurse. Use the id to get
// the leaf node's index. See idbyname and namebyid for explanations.
//
void
SpatialConvex::setfull(uint64 id, size_t level) {
  if(level--) {
    setfull(id << 2    , level);
    setfull((id << 2) + 1, level);
    setfull((id << 2) + 2, level);
    setfull((id << 2) + 3, level);
  } else {
    if(bitresult_)
      full_->set((uint32)index_->leafNumberById(id), true);
    else
      flist_->append(id);
  }
}

/////////////TESTPARTIAL//////////////////////////////////
// testPartial: test a triangle's subtriangle whether they are partial.
// if level is nonzero, recurse.
//
void
SpatialConvex::testPartial(size_t level, uint64 id,
			   const SpatialVector & v0, 
			   const SpatialVector & v1, 
			   const SpatialVector & v2) {

  // if there is still a level to go, subdivide the
  // triangle according to our rules and test each subdivision.
  // (our rules are: each subdivided triangle has to be given
  // ordered counter-clockwise, 0th index starts of new 0-node,
  // 1st index starts off new 1-node, 2nd index starts off new 2-node
  // middle triangle gives new 3-node.
  // if we are at the bottom, set this id to partial.
  if(level--) {
    SpatialVector w0 = v1 + v2; w0.normalize();
    SpatialVector w1 = v0 + v2; w1.normalize();
    SpatialVector w2 = v1 + v0; w2.normalize();

    testSubTriangle(level, (id << 2)    , v0, w2, w1);
    testSubTriangle(level, (id << 2) + 1, v1, w0, w2);
    testSubTriangle(level, (id << 2) + 2, v2, w1, w0);
    testSubTriangle(level, (id << 2) + 3, w0, w1, w2);
  } else {
    if(bitresult_)
      partial_->set((uint32)index_->leafNumberById(id), true);
    else
      plist_->append(id);
  }
}

/////////////TESTSUBTRIANGLE////////////////////////////////
// testSubTriangle: call full or partial depending on result of testNode.
//
void
SpatialConvex::testSubTriangle(size_t level, uint64 id,
			   const SpatialVector & v0, 
			   const SpatialVector & v1, 
			   const SpatialVector & v2) {

  // test this triangle.
  SpatialMarkup mark = testNode(v0, v1, v2);

  // if it is full, set all fulls below this level, too
  // else if it is partial or unknown or swallowed call testpartial
  // with this new level.
  if(mark == fULL) {
    if(range_)
      plist_->append(id);
    else
      setfull(id , level);
  } else if(mark < fULL)
    testPartial(level, id, v0, v1, v2);
}

/////////////TESTNODE/////////////////////////////////////
// testNode: tests the QuadNodes for intersections.
//
SpatialMarkup
SpatialConvex::testNode(const SpatialVector & v0, 
			const SpatialVector & v1, 
			const SpatialVector & v2) {
  // Start with testing the vertices for the QuadNode with this convex.

  int vsum = testVertex(v0) + testVertex(v1) + testVertex(v2);

#ifdef DIAGNOSE
  char name[10];
  SpatialVector v = v0 + v1 + v2;
  //cout << index_->nameById(index_->idByPoint(v),name)
  //   << " " << vsum << " " << "\n";
#endif

  SpatialMarkup mark = 
    testTriangle( v0, v1, v2, vsum);


#ifdef DIAGNOSE
  //cout << ( mark == pARTIAL ? " partial " : 
  //	    ( mark ==  fULL ? " full " :
  //	      ( mark == rEJECT ? " reject " :
  //		" dontknow " ) ) ) << name << "\n";
  
  //<< v0 << "," << v1 << "," << v2 << " " << "\n";
  //<< V(NV(0)) << " , " << V(NV(1)) << " , " << V(NV(2)) << "\n"
  //<< " (" << V(NV(0)).ra() << "," << V(NV(0)).dec() << ")"
  //<< " (" << V(NV(1)).ra() << "," << V(NV(1)).dec() << ")"
  //<< " (" << V(NV(2)).ra() << "," << V(NV(2)).dec() << ")"
  //<< "\n";
  
#endif

  // since we cannot play games using the on-the-fly triangles,
  // substitute dontknow with partial.
  if (mark == dONTKNOW) 
    mark = pARTIAL;

  return mark;
}

/////////////TESTTRIANGLE//////////////////////////////////
// testTriangle: tests a triangle given by 3 vertices if
// it intersects the convex.
//
SpatialMarkup
SpatialConvex::testTriangle(const SpatialVector & v0, 
			    const SpatialVector & v1, 
			    const SpatialVector & v2,
			    int vsum) {

  if(vsum == 1 || vsum == 2) return pARTIAL;

  // If vsum = 3 then we have all vertices inside the convex.
  // Now use the following decision tree:
  //
  // * If the sign of the convex is pOS or zERO : mark as fULL intersection.
  //
  // * Else, test for holes inside the triangle. A 'hole' is a nEG constraint
  //   that has its center inside the triangle. If there is such a hole,
  //   return pARTIAL intersection.
  //
  // * Else (no holes, sign nEG or mIXED) test for intersection of nEG
  //   constraints with the edges of the triangle. If there are such,
  //   return pARTIAL intersection.
  //
  // * Else return fULL intersection.

  if(vsum == 3) {
    if(sign_ == pOS || sign_ == zERO) return fULL;
    if ( testHole(v0,v1,v2) ) return pARTIAL;
    if ( testEdge(v0,v1,v2) ) return pARTIAL;
    return fULL;
  }

  // If we have reached that far, we have vsum=0. There is no definite
  // decision making possible here with our methods, the markup may result
  // in dONTKNOW. The decision tree is the following:
  //
  // * Test with bounding circle of the triangle.
  //
  //   # If the sign of the convex zERO test with the precalculated
  //     bounding circle of the convex. If it does not intersect with the
  //     triangle's bounding circle, rEJECT.
  //
  //   # If the sign of the convex is nonZERO: if the bounding circle
  //     lies outside of one of the constraints, rEJECT.
  //
  // * Else: there was an intersection with the bounding circle.
  //
  //   # For zERO convexes, test whether the convex intersects the edges.
  //     If none of the edges of the convex intersects with the edges of
  //     the triangle, we have a rEJECT. Else, pARTIAL.
  //
  //   # If sign of convex is pOS, or miXED and the smallest constraint does
  //     not intersect the edges and has its center inside the triangle,
  //     return sWALLOW. If no intersection of edges and center outside
  //     triangle, return rEJECT.
  //
  //   # So the smallest constraint DOES intersect with the edges. If
  //     there is another pOS constraint which does not intersect with
  //     the edges, and has its center outside the triangle, return
  //     rEJECT. If its center is inside the triangle return sWALLOW. 
  //     Else, return pARTIAL for pOS and dONTKNOW for mIXED signs. 
  //
  // * If we are here, return dONTKNOW. There is an intersection with 
  //   the bounding circle, none of the vertices is inside the convex and
  //   we have very strange possibilities left for pOS and mIXED signs. For
  //   nEG, i.e. all constraints negative, we also have some complicated
  //   things left for which we cannot test further.

  if ( !testBoundingCircle(v0,v1,v2) ) return rEJECT;

  if ( sign_ == pOS || sign_ == mIXED || (sign_ == zERO && constraints_.length() <= 2)) {
	  // Does the smallest constraint intersect with the edges?
	  if ( testEdgeConstraint(v0,v1,v2,0) ) {
		  // Is there another positive constraint that does NOT intersect with
		  // the edges?
		  size_t cIndex;
		  if ( cIndex = testOtherPosNone(v0,v1,v2) ) {
			  // Does that constraint lie inside or outside of the triangle?
			  if ( testConstraintInside(v0,v1,v2, cIndex) ) {
				  return pARTIAL;
			  }
			  // Does the triangle lie completely within that constr?
			  else if( constraints_.vector_[cIndex].contains(v0) ) {
				  return pARTIAL;
			  }
			  else {
				  return rEJECT;
			  }

		  } else {
			  if(sign_ == pOS || sign_ == zERO) return pARTIAL;
			  else return dONTKNOW;
		  }	
	  } else {
		  if (sign_ == pOS || sign_ == zERO) {
			  // Does the smallest lie inside or outside the triangle?
			  if( testConstraintInside(v0,v1,v2, 0) ) 
				  return pARTIAL;
			  else return rEJECT;
		  } else return  dONTKNOW;
	  }
  } else if (sign_ == zERO) {
	  if ( corners_.length() > 0 && testEdge0(v0,v1,v2) ) 
		  return pARTIAL;
	  else return rEJECT;
  }
  return pARTIAL;
}

/////////////TESTVERTEX/////////////////////////////////////
// testVertex: same as above, but for any spatialvector, no markup speedup
//
int
SpatialConvex::testVertex(const SpatialVector & v)
{
  for ( size_t i = 0; i < constraints_.length(); i++) 
    if ( (constraints_.vector_[i].a_ * v )  < constraints_.vector_[i].d_ )
      return 0;

  return 1;
}

/////////////TESTHOLE/////////////////////////////////////
// testHole: test for holes. If there is a negative constraint whose center
//           is inside the triangle, we speak of a hole. Returns true if
//	     found one.
//
bool
SpatialConvex::testHole(const SpatialVector & v0, 
			const SpatialVector & v1, 
			const SpatialVector & v2) {

  bool test = false;

  for(size_t i = 0; i < constraints_.length(); i++) {

    if ( constraints_.vector_[i].sign_ == nEG ) {  // test only 'holes'

      // If (a ^ b * c) < 0, vectors abc point clockwise.
      // -> center c not inside triangle, since vertices a,b are ordered
      // counter-clockwise. The comparison here is the other way
      // round because c points into the opposite direction as the hole

      if ( ( ( v0 ^ v1 ) * 
	     constraints_.vector_[i].a_) > 0.0L ) continue;
      if ( ( ( v1 ^ v2 ) *
	     constraints_.vector_[i].a_) > 0.0L ) continue;
      if ( ( ( v2 ^ v0 ) * 
	     constraints_.vector_[i].a_) > 0.0L ) continue;
      test = true;
      break;
    }
  }
  return test;
}

/////////////TESTEDGE0////////////////////////////////////
// testEdge0: test if the edges intersect with the zERO convex.
//            The edges are given by the vertex vectors e[0-2]
//	      All constraints are great circles, so test if their intersect
//            with the edges is inside or outside the convex.
//            If any edge intersection is inside the convex, return true.
//            If all edge intersections are outside, check whether one of
//            the corners is inside the triangle. If yes, all of them must be
//            inside -> return true.
//
bool
SpatialConvex::testEdge0(const SpatialVector & v0, 
			 const SpatialVector & v1, 
			 const SpatialVector & v2) {
  // We have constructed the corners_ array in a certain direction.
  // now we can run around the convex, check each side against the 3
  // triangle edges. If any of the sides has its intersection INSIDE
  // the side, return true. At the end test if a corner lies inside
  // (because if we get there, none of the edges intersect, but it
  // can be that the convex is fully inside the triangle. so to test
  // one single edge is enough)

  struct edgeStruct {
    SpatialVector e;		// The half-sphere this edge delimits
    float64	  l;		// length of edge
    const SpatialVector *e1;	// first end
    const SpatialVector *e2;	// second end
  } edge[3];

  // fill the edge structure for each side of this triangle
  edge[0].e = v0 ^ v1; edge[0].e1 = &v0; edge[0].e2 = &v1;
  edge[1].e = v1 ^ v2; edge[1].e1 = &v1; edge[1].e2 = &v2;
  edge[2].e = v2 ^ v0; edge[2].e1 = &v2; edge[2].e2 = &v0;
  edge[0].l = acos(v0 * v1);
  edge[1].l = acos(v1 * v2);
  edge[2].l = acos(v2 * v0);

  for(size_t i = 0; i < corners_.length(); i++) {
    size_t j = 0;
    if(i < corners_.length() - 1) j = i+1;
    SpatialVector a1;
    float64 l1,l2;   // lengths of the arcs from intersection to edge corners
    float64 cedgelen = acos(corners_(i) * corners_(j));  // length of edge of convex

    // calculate the intersection - all 3 edges
    for (size_t iedge = 0; iedge < 3; iedge++) {
      a1 = ( edge[iedge].e ) ^ ( corners_(i) ^ corners_(j) );
      a1.normalize();
      // if the intersection a1 is inside the edge of the convex,
      // its distance to the corners is smaller than the edgelength.
      // this test has to be done for both the edge of the convex and
      // the edge of the triangle.
      for(size_t k = 0; k < 2; k++) {
	l1 = acos(corners_(i) * a1);
	l2 = acos(corners_(j) * a1);
	if( l1 - cedgelen <= gEpsilon && l2 - cedgelen <= gEpsilon ) {
	  l1 = acos( *(edge[iedge].e1) * a1 );
	  l2 = acos( *(edge[iedge].e2) * a1 );
	  if( l1 - edge[iedge].l <= gEpsilon && 
	      l2 - edge[iedge].l <= gEpsilon ) 
	    return true;
	}
	a1 *= -1.0; // do the same for the other intersection
      }
    }
  }
  return testVectorInside(v0,v1,v2,corners_(0));
}

/////////////TESTEDGE/////////////////////////////////////
// testEdge: test if edges intersect with constraint. This problem
//           is solved by a quadratic equation. Return true if there is
//	     an intersection.
//
bool
SpatialConvex::testEdge(const SpatialVector & v0, 
			const SpatialVector & v1, 
			const SpatialVector & v2) {

  for(size_t i = 0; i < constraints_.length(); i++) {

    if ( constraints_.vector_[i].sign_ == nEG ) {  // test only 'holes'
      if ( eSolve(v0, v1, i) ) return true;
      if ( eSolve(v1, v2, i) ) return true;
      if ( eSolve(v2, v0, i) ) return true;
    }
  }
  return false;
}

/////////////ESOLVE///////////////////////////////////////
// eSolve: solve the quadratic eq. for intersection of an edge with a circle
//         constraint. Edge given by grand circle running through v1, v2
//         Constraint given by cIndex.
bool
SpatialConvex::eSolve(const SpatialVector & v1, 
		      const SpatialVector & v2, size_t cIndex)
{
  float64 gamma1 = v1 * constraints_.vector_[cIndex].a_ ;
  float64 gamma2 = v2 * constraints_.vector_[cIndex].a_ ;
  float64 mu     = v1 * v2;
  float64 u2     = (1 - mu) / (1 + mu);

  float64 a      = - u2 * (gamma1 + constraints_.vector_[cIndex].d_);
  float64 b      = gamma1 * ( u2 - 1 ) + gamma2 * ( u2 + 1 );
  float64 c      = gamma1 - constraints_.vector_[cIndex].d_;

  float64 D      = b * b - 4 * a * c;

  if( D < 0.0L ) return false; // no intersection

  // calculate roots a'la Numerical Recipes

  float64 q      = -0.5L * ( b + ( SGN(b) * sqrt(D) ) );

  float64 root1=0, root2=0;
  int i = 0;

  if ( a > gEpsilon || a < -gEpsilon ) { root1 = q / a; i++; }
  if ( q > gEpsilon || q < -gEpsilon ) { root2 = c / q; i++; }

  // Check whether the roots lie within [0,1]. If not, the intersection
  // is outside the edge.

  if (i == 0) return false; // no solution
  if ( root1 >= 0.0L && root1 <= 1.0L ) return true;
  if ( i == 2 && ( (root1 >= 0.0L && root1 <= 1.0L ) ||
		   (root2 >= 0.0L && root2 <= 1.0L ) ) ) return true;

  return false;
}

/////////////TESTBOUNDINGCIRCLE///////////////////////////
// testBoundingCircle: test for boundingCircles intersecting with constraint
//
bool
SpatialConvex::testBoundingCircle(const SpatialVector & v0, 
				  const SpatialVector & v1, 
				  const SpatialVector & v2) {

  // Set the correct direction: The normal vector to the triangle plane
  SpatialVector c = ( v1 - v0 ) ^ ( v2 - v1 );
  c.normalize();

  // Set the correct opening angle: Since the plane cutting out the triangle
  // also correctly cuts out the bounding cap of the triangle on the sphere,
  // we can take any corner to calculate the opening angle
  float64 d = acos (c * v0);

  // for zero convexes, we have calculated a bounding circle for the convex.
  // only test with this single bounding circle.

  if(sign_ == zERO) {
    float64 tst;
    if ( ( (tst = c * boundingCircle_.a_) < -1.0L + gEpsilon ? gPi :
	   acos(tst) ) > 
	 ( d + boundingCircle_.s_) ) return false;
    return true;
  }

  // for all other convexes, test every constraint. If the bounding
  // circle lies completely outside of one of the constraints, reject.
  // else, accept.

  size_t i;
  for(i = 0; i < constraints_.length(); i++) {
      if ( ( (c * constraints_.vector_[i].a_) < -1.0L + gEpsilon ? gPi :
	   acos(c * constraints_.vector_[i].a_) ) > 
	  ( d + constraints_.vector_[i].s_) ) return false;
  }
  return true;
}

/////////////TESTEDGECONSTRAINT///////////////////////////
// testEdgeConstraint: test if edges intersect with a given constraint.
//
bool
SpatialConvex::testEdgeConstraint(const SpatialVector & v0, 
				  const SpatialVector & v1, 
				  const SpatialVector & v2, 
				  size_t cIndex) {
  if ( eSolve(v0, v1, cIndex) ) return true;
  if ( eSolve(v1, v2, cIndex) ) return true;
  if ( eSolve(v2, v0, cIndex) ) return true;
  return false;
}

/////////////TESTOTHERPOSNONE/////////////////////////////
// testOtherPosNone: test for other positive constraints that do
//                   not intersect with an edge. Return its index
//
size_t
SpatialConvex::testOtherPosNone(const SpatialVector & v0, 
				const SpatialVector & v1, 
				const SpatialVector & v2) {
  size_t i = 1;
  while ( i < constraints_.length() && constraints_.vector_[i].sign_ == pOS ) {
    if ( !testEdgeConstraint ( v0,v1,v2, i ) ) return i;
    i++;
  }
  return 0;
}

/////////////TESTCONSTRAINTINSIDE/////////////////////////
// testConstraintInside: look if a constraint is inside the triangle
//
bool
SpatialConvex::testConstraintInside(const SpatialVector & v0, 
				    const SpatialVector & v1, 
				    const SpatialVector & v2,
				    size_t i) {
  return testVectorInside(v0,v1,v2, constraints_.vector_[i].a_);
}

/////////////TESTVECTORINSIDE////////////////////////////
// testVectorInside: look if a vector is inside the triangle
//
bool
SpatialConvex::testVectorInside(const SpatialVector & v0, 
				const SpatialVector & v1, 
				const SpatialVector & v2, 
				SpatialVector & v) {

  // If (a ^ b * c) < 0, vectors abc point clockwise.
  // -> center c not inside triangle, since vertices are ordered
  // counter-clockwise.

  if( ( (( v0 ^ v1 ) * v) < 0 ) ||
      ( (( v1 ^ v2 ) * v) < 0 ) ||
      ( (( v2 ^ v0 ) * v) < 0 ) )
      return false;
  return true;
}

/////////////READ/////////////////////////////////////////
//
void
SpatialConvex::read(std::istream &in) {
  size_t nconstr;
  SpatialConstraint constr;
  
  in.setf(std::ios::skipws);
  while(in.peek() == COMMENT)  // ignore comments
    in.ignore(10000,'\n');
  in >> nconstr ; in.ignore(); // ignore "\n"
  if(!in.good())
    throw SpatialFailure("SpatialConvex:read: Could not read constraint");
  for(size_t i = 0; i < nconstr; i++) {
    if(in.eof())
      throw SpatialFailure("SpatialConvex:read: Premature end-of-file");
    in >> constr;
    if(!in.good())
      throw SpatialFailure("SpatialConvex:read: Could not read constraint");
    add(constr);
  }
}

/////////////READ/////////////////////////////////////////
//
void
SpatialConvex::readRaDec(std::istream &in) {
  size_t nconstr;
  SpatialConstraint constr;
  
  while(in.peek() == COMMENT)  // ignore comments
    in.ignore(10000,'\n');
  in >> nconstr ; in.ignore(); // ignore "\n"
  for(size_t i = 0; i < nconstr; i++) {
    constr.readRaDec(in);
    add(constr);
  }
}

/////////////set ra,dec E.S.S./////////////////////////////////////////
//

void
SpatialConvex::setRaDecD(float64 ra, float64 dec, float64 d) {
  
  SpatialConstraint constr;
  
  constr.setRaDecD(ra,dec,d);
  add(constr);
}

/////////////WRITE////////////////////////////////////////
//
void
SpatialConvex::write(std::ostream &out) const {
  out << "#CONVEX" << "\n";
  out << constraints_.length() << "\n";
  for (size_t i = 0; i < constraints_.length() ; i++)
    out << constraints_[i];
}

/////////////>>///////////////////////////////////////////
// read from istream
//
std::istream& operator >>( std::istream& in, SpatialConvex & c) {
  c.read(in);
  return(in);
}

/////////////<<///////////////////////////////////////////
// write to ostream
//
std::ostream& operator <<( std::ostream& out, const SpatialConvex & c) {
  c.write(out);
  return(out);
}
