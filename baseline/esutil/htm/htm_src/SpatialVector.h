#ifndef _SpatialVector_h
#define _SpatialVector_h
//#     Filename:       SpatialVector.h
//#
//#     Standard 3-d vector class
//#
//#
//#     Author:         Peter Z. Kunszt, based on A. Szalay's code
//#     
//#     Date:           October 15, 1998
//#
//#
//#
//# (c) Copyright The Johns Hopkins University 1998
//# All Rights Reserved
//#
//# The software and information contained herein are proprietary to The
//# Johns Hopkins University, Copyright 1998.  This software is furnished
//# pursuant to a written license agreement and may be used, copied,
//# transmitted, and stored only in accordance with the terms of such
//# license and with the inclusion of the above copyright notice.  This
//# software and information or any other copies thereof may not be
//# provided or otherwise made available to any other person.
//#
//#
#include <math.h>
#include <stdio.h>
#include <iostream>
#include "SpatialGeneral.h"

//########################################################################
/**

   The SpatialVector is a 3D vector usually living on the surface of
   the sphere. The corresponding ra, dec can be obtained if the vector
   has unit length. That can be ensured with the normalize() function.

*/

//class LINKAGE SpatialVector {
class SpatialVector {
public:
  /// constructs (1,0,0), ra=0, dec=0.
  SpatialVector();

  /// Constructor from three coordinates, not necessarily normed to 1
  SpatialVector(float64 x,
		float64 y,
		float64 z);

  /// Constructor from ra/dec, this is always normed to 1
  SpatialVector(float64 ra,
		float64 dec);

  /// Copy constructor
  SpatialVector(const SpatialVector &);

  /// Assignment
  SpatialVector& operator =(const SpatialVector &);

  /// Set member function: set values - always normed to 1
  void set(const float64 &x,
	   const float64 &y,
	   const float64 &z);

  /// Set member function: set values - always normed to 1
  void set(const float64 &ra,
	   const float64 &dec);

  /// Get x,y,z
  void get( float64 &x,
	    float64 &y,
	    float64 &z) const;

  /// Get ra,dec - normalizes x,y,z
  void get( float64 &ra,
	    float64 &dec);

  /// return length of vector
  float64 length() const;

  /// return x (only as rvalue)
  float64 x() const;

  /// return y
  float64 y() const;

  /// return z
  float64 z() const;

  /// return ra - this norms the vector to 1 if not already done so
  float64 ra();

  /// return dec - this norms the vector to 1 if not already done so
  float64 dec();

  /// Normalize vector length to 1
  void normalize();

  /// Printf it to stdout
  void show() const;

  /// Read vector from a stream
  void read(std::istream &);

  /// Write vector to a stream
  void write(std::ostream &) const;

  /// Comparison
  int operator ==(const SpatialVector & ) const;

  /// dot product
  float64 operator *(const SpatialVector & ) const;

  /// cross product
  SpatialVector operator ^(const SpatialVector & ) const;

  /// addition
  SpatialVector operator +(const SpatialVector & ) const;

  /// subtraction
  SpatialVector operator -(const SpatialVector & ) const;

  /**@name Scalar products with int and float */
  //@{
  /**@name operator *= */
  SpatialVector & operator *=(float64);
  SpatialVector & operator *=(int);
  friend SpatialVector operator *(float64, const SpatialVector &);
  friend SpatialVector operator *(int,     const SpatialVector &);
  friend SpatialVector operator *(const SpatialVector &, float64);
  friend SpatialVector operator *(const SpatialVector &, int);
  //@}

private:
  float64 x_;
  float64 y_;
  float64 z_;
  float64 ra_;
  float64 dec_;
  bool okRaDec_;

  void updateXYZ();
  void updateRaDec();

  friend class SpatialIndex;
  friend class SpatialDomain;
  friend class sxSpatialDomain;
};

#include "SpatialVector.hxx"

#endif

