//#     Filename:       SpatialIndex.cpp
//#
//#     The SpatialIndex class is defined here.
//#
//#     Author:         Peter Z. Kunszt based on A. Szalay's code
//#     
//#     Date:           October 15, 1998
//#
//#
//#
//# (c) Copyright The Johns Hopkins University 1998
//# All Rights Reserved
//#
//# The software and information contained herein are proprietary to The
//# Johns Hopkins University, Copyright 1998.  This software is furnished
//# pursuant to a written license agreement and may be used, copied,
//# transmitted, and stored only in accordance with the terms of such
//# license and with the inclusion of the above copyright notice.  This
//# software and information or any other copies thereof may not be
//# provided or otherwise made available to any other person.
//#
//#
//#     Modification History:
//#
#include "SpatialIndex.h"

// ===========================================================================
//
// Macro definitions for readability
//
// ===========================================================================

#define N(x) nodes_.vector_[(x)]
#define V(x) vertices_.vector_[nodes_.vector_[index].v_[(x)]]
#define IV(x) nodes_.vector_[index].v_[(x)]
#define W(x) vertices_.vector_[nodes_.vector_[index].w_[(x)]]
#define IW(x) nodes_.vector_[index].w_[(x)]
#define ICHILD(x) nodes_.vector_[index].childID_[(x)]

#define IV_(x) nodes_.vector_[index_].v_[(x)]
#define IW_(x) nodes_.vector_[index_].w_[(x)]
#define ICHILD_(x) nodes_.vector_[index_].childID_[(x)]
#define IOFFSET 9
// ===========================================================================
//
// Member functions for class SpatialIndex
//
// ===========================================================================

/////////////CONSTRUCTOR//////////////////////////////////
//
SpatialIndex::SpatialIndex(size_t maxlevel, size_t buildlevel) :
  maxlevel_(maxlevel), 
  buildlevel_( (buildlevel == 0 || buildlevel > maxlevel) ? maxlevel 
	                                                  : buildlevel)
{
  size_t nodes,vertices;

  layers_.at(buildlevel_);   	// allocate enough space already
  vMax(&nodes,&vertices);
  nodes_.at(nodes); 		// allocate space for all nodes
  vertices_.at(vertices); 	// allocate space for all vertices

  N(0).index_ = 0; // initialize invalid node

  // initialize first layer
  layers_[0].level_ = 0;
  layers_[0].nVert_ = 6;
  layers_[0].nNode_ = 8;
  layers_[0].nEdge_ = 12;
  layers_[0].firstIndex_ = 1;
  layers_[0].firstVertex_ = 0;

  // set the first 6 vertices
  float64 v[6][3] = {
    {0.0L,  0.0L,  1.0L}, // 0
    {1.0L,  0.0L,  0.0L}, // 1
    {0.0L,  1.0L,  0.0L}, // 2
   {-1.0L,  0.0L,  0.0L}, // 3
    {0.0L, -1.0L,  0.0L}, // 4
    {0.0L,  0.0L, -1.0L}  // 5
  };

  for(int i = 0; i < 6; i++)
    vertices_[i].set( v[i][0], v[i][1], v[i][2]);

  // create the first 8 nodes - index 1 through 8
  index_ = 1;
  newNode(1,5,2,8,0);  // S0
  newNode(2,5,3,9,0);  // S1
  newNode(3,5,4,10,0); // S2
  newNode(4,5,1,11,0); // S3
  newNode(1,0,4,12,0); // N0
  newNode(4,0,3,13,0); // N1
  newNode(3,0,2,14,0); // N2
  newNode(2,0,1,15,0); // N3

  //  loop through buildlevel steps, and build the nodes for each layer
  size_t pl=0;
  size_t level = buildlevel_;
  while(level-- > 0) {
    SpatialEdge edge(*this, pl);
    edge.makeMidPoints();
    makeNewLayer(pl);
    ++pl;
  }
  sortIndex();
}

/////////////SHOWVERTICES/////////////////////////////////
// showVertices: print every vertex to the output stream
void
SpatialIndex::showVertices(std::ostream & out) const
{
  for(size_t i = 0; i < vertices_.length()-1; i++)
    out << vertices_.vector_[i] << "\n";
}

/////////////NODEVERTEX///////////////////////////////////
// nodeVertex: return index of vertices for a node
void 
SpatialIndex::nodeVertex(const size_t idx, 
			 size_t & v1, size_t & v2, size_t & v3) const {
 v1 = nodes_.vector_[idx].v_[0];
 v2 = nodes_.vector_[idx].v_[1];
 v3 = nodes_.vector_[idx].v_[2];
}

/////////////NODEVERTEX///////////////////////////////////
// nodeVertex: return the vectors of the vertices, based on the ID
// 
void 
SpatialIndex::nodeVertex(const uint64 id,
			 SpatialVector & v0,
			 SpatialVector & v1,
			 SpatialVector & v2) const {

  if(buildlevel_ == maxlevel_) {
    uint32 idx = (uint32)id;
    v0 = vertices_.vector_[nodes_.vector_[idx].v_[0]];
    v1 = vertices_.vector_[nodes_.vector_[idx].v_[1]];
    v2 = vertices_.vector_[nodes_.vector_[idx].v_[2]];
    return;
  }

  // buildlevel < maxlevel
  // get the id of the stored leaf that we are in
  // and get the vertices of the node we want
  uint64 sid = id >> ((maxlevel_ - buildlevel_)*2);
  uint32 idx = (uint32)(sid - storedleaves_ + IOFFSET);
  v0 = vertices_.vector_[nodes_.vector_[idx].v_[0]];
  v1 = vertices_.vector_[nodes_.vector_[idx].v_[1]];
  v2 = vertices_.vector_[nodes_.vector_[idx].v_[2]];

  // loop through additional levels,
  // pick the correct triangle accordingly, storing the
  // vertices in v1,v2,v3
  for(uint32 i = buildlevel_ + 1; i <= maxlevel_; i++) {
    uint64 j = ( id >> ((maxlevel_ - i)*2) ) & 3;
    SpatialVector w0 = v1 + v2; w0.normalize();
    SpatialVector w1 = v0 + v2; w1.normalize();
    SpatialVector w2 = v1 + v0; w2.normalize();

    switch(j) {
    case 0:
      v1 = w2;
      v2 = w1;
      break;
    case 1:
      v0 = v1;
      v1 = w0;
      v2 = w2;
      break;
    case 2:
      v0 = v2;
      v1 = w1;
      v2 = w0;
      break;
    case 3:
      v0 = w0;
      v1 = w1;
      v2 = w2;
      break;
    }
  }
}

/////////////MAKENEWLAYER/////////////////////////////////
// makeNewLayer: generate a new layer and the nodes in it
//
void 
SpatialIndex::makeNewLayer(size_t oldlayer)
{
  uint64 index, id;
  size_t newlayer = oldlayer + 1;

  layers_[newlayer].level_  = layers_[oldlayer].level_+1;
  layers_[newlayer].nVert_  = layers_[oldlayer].nVert_ + 
                              layers_[oldlayer].nEdge_;
  layers_[newlayer].nNode_  = 4 * layers_[oldlayer].nNode_;
  layers_[newlayer].nEdge_  = layers_[newlayer].nNode_ + 
                             layers_[newlayer].nVert_ - 2;
  layers_[newlayer].firstIndex_ = index_;
  layers_[newlayer].firstVertex_ = layers_[oldlayer].firstVertex_ + 
                                   layers_[oldlayer].nVert_;

  uint64 ioffset = layers_[oldlayer].firstIndex_ ; 
  for(index = ioffset;
      index < ioffset + layers_[oldlayer].nNode_; index++){
    id = N(index).id_ << 2;
    ICHILD(0) = newNode(IV(0),IW(2),IW(1),id++,index);
    ICHILD(1) = newNode(IV(1),IW(0),IW(2),id++,index);
    ICHILD(2) = newNode(IV(2),IW(1),IW(0),id++,index);
    ICHILD(3) = newNode(IW(0),IW(1),IW(2),id,index);
  }
}

/////////////NEWNODE//////////////////////////////////////
// newNode: make a new node
//
uint64
SpatialIndex::newNode(size_t v1, size_t v2,size_t v3,uint64 id,uint64 parent)
{
  IV_(0) = v1;		// vertex indices
  IV_(1) = v2;
  IV_(2) = v3;
  IW_(0) = 0;		// middle point indices
  IW_(1) = 0;
  IW_(2) = 0;
  ICHILD_(0) = 0;	// child indices
  ICHILD_(1) = 0;	// index 0 is invalid node.
  ICHILD_(2) = 0;
  ICHILD_(3) = 0;

  N(index_).id_ = id;		// set the id
  N(index_).index_ = index_;	// set the index
  N(index_).parent_ = parent;	// set the parent
  return index_++;
}


float64
SpatialIndex::area(uint64 ID) const
{
  size_t leaf = leafNumberById(ID);

  SpatialVector n0;
  SpatialVector n1;
  SpatialVector n2;

  nodeVertex(leaf, n0, n1, n2);
  return area(n0,n1,n2);
}


/////////////AREA////////////////////////////////////////
// area: routine to precompute the area of a node using
//
//   AREA = 4*arctan sqrt(tan(s/2)tan((s-a)/2)tan((s-b)/2)tan((s-c)/2))
//
//   with s = (a+b+c)/2
//
// (with many thanks to Eduard Masana, emasana@pchpc10.am.ub.es )
//
float64
SpatialIndex::area(const SpatialVector & v0, 
		   const SpatialVector & v1,
		   const SpatialVector & v2) const {

  float64 a = acos( v0 * v1);
  float64 b = acos( v1 * v2);
  float64 c = acos( v2 * v0);

  float64 s = (a + b + c)/2.0;

  float64 area = 4.0*atan(sqrt(tan(s/2.0)*
			       tan((s-a)/2.0)*
			       tan((s-b)/2.0)*
			       tan((s-c)/2.0)));        
  return area;
}

/////////////VMAX/////////////////////////////////////////
// vMax: compute the maximum number of vertices for the
//       polyhedron after buildlevel of subdivisions and
//       the total number of nodes that we store
//       also, calculate the number of leaf nodes that we eventually have.
//
void
SpatialIndex::vMax(size_t *nodes, size_t *vertices) {
  uint64 nv = 6;    // initial values
  uint64 ne = 12;
  uint64 nf = 8;
  int32 i  = buildlevel_;
  *nodes = (size_t)nf;

  while(i-->0){
    nv += ne;
    nf *= 4;
    ne  = nf + nv -2;
    *nodes += (size_t)nf;
  }
  *vertices = (size_t)nv;
  storedleaves_ = nf;

  // calculate number of leaves
  i = maxlevel_ - buildlevel_;
  while(i-- > 0)
    nf *= 4;
  leaves_ = nf;
}

/////////////SORTINDEX////////////////////////////////////
// sortIndex: sort the index so that the first node is the invalid node
//            (index 0), the next 8 nodes are the root nodes
//            and then we put all the leaf nodes in the following block
//            in ascending id-order.
//            All the rest of the nodes is at the end.
void
SpatialIndex::sortIndex() {
  ValVec<QuadNode> oldnodes(nodes_); // create a copy of the node list
  size_t index;
  size_t nonleaf;
  size_t leaf;

#define ON(x) oldnodes.vector_[(x)]

  // now refill the nodes_ list according to our sorting.
  for( index=IOFFSET, leaf=IOFFSET, nonleaf=nodes_.length()-1; 
       index < nodes_.length(); index++) {

    if( ON(index).childID_[0] == 0 ) { // childnode
      // set leaf into list
      N(leaf) = ON(index);
      // set parent's pointer to this leaf
      for (size_t i = 0; i < 4; i++) {
	if(N(N(leaf).parent_).childID_[i] == index) {
	  N(N(leaf).parent_).childID_[i] = leaf;
	  break;
	}
      }
      leaf++;
    } else {
      // set nonleaf into list from the end
      // set parent of the children already to this
      // index, they come later in the list.
      N(nonleaf) = ON(index);
      ON(N(nonleaf).childID_[0]).parent_ = nonleaf;
      ON(N(nonleaf).childID_[1]).parent_ = nonleaf;
      ON(N(nonleaf).childID_[2]).parent_ = nonleaf;
      ON(N(nonleaf).childID_[3]).parent_ = nonleaf;
      // set parent's pointer to this leaf
      for (size_t i = 0; i < 4; i++) {
	if(N(N(nonleaf).parent_).childID_[i] == index) {
	  N(N(nonleaf).parent_).childID_[i] = nonleaf;
	  break;
	}
      }
      nonleaf--;
    }
  }
}
//////////////////IDBYNAME/////////////////////////////////////////////////
// Translate ascii leaf name to a uint32
//
// The following encoding is used:
//
// The string leaf name has the always the same structure, it begins with
// an N or S, indicating north or south cap and then numbers 0-3 follow 
// indicating which child to descend into. So for a depth-5-index we have
// strings like
//                 N012023  S000222  N102302  etc
//
// Each of the numbers correspond to 2 bits of code (00 01 10 11) in the
// uint32. The first two bits are 10 for S and 11 for N. For example
//
//                 N 0 1 2 0 2 3
//                 11000110001011  =  12683 (dec)
//
// The leading bits are always 0.
//
// --- WARNING: This works only up to 15 levels. 
//              (we probably never need more than 7)
//

uint64
SpatialIndex::idByName(const char *name) {

  uint64 out=0, i;
  uint32 size = 0;

  if(name == 0)              // null pointer-name
    throw SpatialFailure("SpatialIndex:idByName:no name given");
  if(name[0] != 'N' && name[0] != 'S')  // invalid name
    throw SpatialFailure("SpatialIndex:idByName:invalid name",name);

  size = strlen(name);       // determine string length
  // at least size-2 required, don't exceed max
  if(size < 2)
    throw SpatialFailure("SpatialIndex:idByName:invalid name - too short ",name);
  if(size > HTMNAMEMAX)
    throw SpatialFailure("SpatialIndex:idByName:invalid name - too long ",name);

  for(i = size-1; i > 0; i--) {// set bits starting from the end
    if(name[i] > '3' || name[i] < '0') // invalid name
      throw SpatialFailure("SpatialIndex:idByName:invalid name digit ",name);
    out += (uint64(name[i]-'0') << 2*(size - i -1));
  }

  i = 2;                     // set first pair of bits, first bit always set
  if(name[0]=='N') i++;      // for north set second bit too
  out += (i << (2*size - 2) );

  /************************
  // This code may be used later for hashing !
  if(size==2)out -= 8;
  else {
    size -= 2;
    uint32 offset = 0, level4 = 8;
    for(i = size; i > 0; i--) { // calculate 4 ^ (level-1), level = size-2
      offset += level4;
      level4 *= 4;
    }
    out -= level4 - offset;
  }
  **************************/
  return out;
}


//////////////////NAMEBYID/////////////////////////////////////////////////
// Translate uint32 to an ascii leaf name
//
// The encoding described above may be decoded again using the following
// procedure:
//
//  * Traverse the uint32 from left to right.
//  * Find the first 'true' bit.
//  * The first pair gives N (11) or S (10).
//  * The subsequent bit-pairs give the numbers 0-3.
//

char *
SpatialIndex::nameById(uint64 id, char * name){

  uint32 size=0, i;
#ifdef _WIN32
  uint64 IDHIGHBIT = 1;
  uint64 IDHIGHBIT2= 1;
  IDHIGHBIT = IDHIGHBIT << 63;
  IDHIGHBIT2 = IDHIGHBIT2 << 62;
#endif

  /*************
  // This code might be useful for hashing later !!

  // calculate the level (i.e. 8*4^level) and add it to the id:
  uint32 level=0, level4=8, offset=8;
  while(id >= offset) {
    if(++level > 13) { ok = false; offset = 0; break; }// level too deep
    level4 *= 4;
    offset += level4;
  }
  id += 2 * level4 - offset;
  **************/

  // determine index of first set bit
  for(i = 0; i < IDSIZE; i+=2) {
	if ( (id << i) & IDHIGHBIT ) break;
    if ( (id << i) & IDHIGHBIT2 )  // invalid id
		throw SpatialFailure("SpatialIndex:nameById: invalid ID");
  }
  if(id == 0)
    throw SpatialFailure("SpatialIndex:nameById: invalid ID");

  size=(IDSIZE-i) >> 1;
  // allocate characters
  if(!name)
    name = new char[size+1];

  // fill characters starting with the last one
  for(i = 0; i < size-1; i++)
    name[size-i-1] = '0' + char( (id >> i*2) & 3);

  // put in first character
  if( (id >> (size*2-2)) & 1 ) {
    name[0] = 'N';
  } else {
    name[0] = 'S';
  }
  name[size] = 0; // end string

  return name;
}
//////////////////IDBYPOINT////////////////////////////////////////////////
// Find a leaf node where a vector points to
//

uint64
SpatialIndex::idByPoint(SpatialVector & v) const {
    uint64 index;

    // start with the 8 root triangles, find the one which v points to
    for(index=1; index <=8; index++) {
	if( (V(0) ^ V(1)) * v < -gEpsilon) continue;
	if( (V(1) ^ V(2)) * v < -gEpsilon) continue;
	if( (V(2) ^ V(0)) * v < -gEpsilon) continue;
	break;
    }
    // loop through matching child until leaves are reached
    while(ICHILD(0)!=0) {
	uint64 oldindex = index;
	for(size_t i = 0; i < 4; i++) {
	    index = nodes_.vector_[oldindex].childID_[i];
	    if( (V(0) ^ V(1)) * v < -gEpsilon) continue;
	    if( (V(1) ^ V(2)) * v < -gEpsilon) continue;
	    if( (V(2) ^ V(0)) * v < -gEpsilon) continue;
	    break;
	}
    }
    // return if we have reached maxlevel
    if(maxlevel_ == buildlevel_)return N(index).id_;

    // from now on, continue to build name dynamically.
    // until maxlevel_ levels depth, continue to append the
    // correct index, build the index on the fly.
    char name[HTMNAMEMAX];
    nameById(N(index).id_,name);
    size_t len = strlen(name);
    SpatialVector v0 = V(0);
    SpatialVector v1 = V(1);
    SpatialVector v2 = V(2);

    size_t level = maxlevel_ - buildlevel_;
    while(level--) {
      SpatialVector w0 = v1 + v2; w0.normalize();
      SpatialVector w1 = v0 + v2; w1.normalize();
      SpatialVector w2 = v1 + v0; w2.normalize();

      if(isInside(v, v0, w2, w1)) {
	name[len++] = '0';
	v1 = w2; v2 = w1;
	continue;
      } else if(isInside(v, v1, w0, w2)) {
	name[len++] = '1';
	v0 = v1; v1 = w0; v2 = w2;
	continue;
      } else if(isInside(v, v2, w1, w0)) {
	name[len++] = '2';
	v0 = v2; v1 = w1; v2 = w0;
	continue;
      } else if(isInside(v, w0, w1, w2)) {
	name[len++] = '3';
	v0 = w0; v1 = w1; v2 = w2;
	continue;
      }
    }
    name[len] = '\0';
    return idByName(name);
}

//////////////////ISINSIDE/////////////////////////////////////////////////
// Test whether a vector is inside a triangle. Input triangle has
// to be sorted in a counter-clockwise direction.
//
bool
SpatialIndex::isInside(const SpatialVector & v, const SpatialVector & v0,
	       const SpatialVector & v1, const SpatialVector & v2) const 
{
  if( (v0 ^ v1) * v < -gEpsilon) return false;
  if( (v1 ^ v2) * v < -gEpsilon) return false;
  if( (v2 ^ v0) * v < -gEpsilon) return false;
  return true;
}
