//#     Filename:       SpatialEdge.cpp
//#
//#     The SpatialEdge class is defined here.
//#
//#     Author:         Peter Z. Kunszt based on A. Szalay's code
//#     
//#     Date:           October 15, 1998
//#
//#
//#
//# (c) Copyright The Johns Hopkins University 1998
//# All Rights Reserved
//#
//# The software and information contained herein are proprietary to The
//# Johns Hopkins University, Copyright 1998.  This software is furnished
//# pursuant to a written license agreement and may be used, copied,
//# transmitted, and stored only in accordance with the terms of such
//# license and with the inclusion of the above copyright notice.  This
//# software and information or any other copies thereof may not be
//# provided or otherwise made available to any other person.
//#
//#
//#     Modification History:
//#
#include "SpatialEdge.h"

// ===========================================================================
//
// Macro definitions for readability
//
// ===========================================================================
#define V(x) tree_.vertices_[tree_.nodes_[index].v_[(x)]]
#define IV(x) tree_.nodes_[index].v_[(x)]
#define W(x) tree_.vertices_[tree_.nodes_[index].w_[(x)]]
#define IW(x) tree_.nodes_[index].w_[(x)]
#define LAYER tree_.layers_.vector_[layerindex_]


// ===========================================================================
//
// Member functions for class SpatialEdge
//
// ===========================================================================

/////////////CONSTRUCTOR//////////////////////////////////
//
SpatialEdge::SpatialEdge(SpatialIndex & tree, size_t layerindex) :
  tree_(tree), layerindex_(layerindex) {

  // allocate space for edges and lookup table
  edges_ = new Edge  [LAYER.nEdge_ + 1];
  lTab_  = new Edge* [LAYER.nVert_ * 6];

  // initialize lookup table, we depend on that NULL
  for(size_t i = 0; i < LAYER.nVert_ * 6; i++)
    lTab_[i] = NULL;

  // first vertex index for the vertices to be generated
  index_ = LAYER.nVert_;
}

/////////////DESTRUCTOR///////////////////////////////////
//
SpatialEdge::~SpatialEdge() {
  delete[] edges_;
  delete[] lTab_;
}

/////////////MAKEMIDPOINTS////////////////////////////////
// makeMidPoints: interface to this class. Set midpoints of every
//                node in this layer.
void
SpatialEdge::makeMidPoints()
{
  size_t c=0;
  size_t index;

  // build up the new edges 

  index = (size_t)LAYER.firstIndex_;
  for(size_t i=0; i < LAYER.nNode_; i++,index++){
    c = newEdge(c,index,0);
    c = newEdge(c,index,1);
    c = newEdge(c,index,2);
  }
}


/////////////NEWEDGE//////////////////////////////////////
// newEdge: determines whether the edge em is already in the list.  k
//          is the label of the edge within the node Returns index of next
//          edge, if not found, or returns same if it is already there.  Also
//          registers the midpoint in the node.

size_t
SpatialEdge::newEdge(size_t emindex, size_t index, int k)
{
  Edge *en, *em;
  size_t swap;

  em = &edges_[emindex];

  switch (k) {
  case 0:
    em->start_ = IV(1);
    em->end_   = IV(2);
    break;
  case 1:
    em->start_ = IV(0);
    em->end_   = IV(2);
    break;
  case 2:
    em->start_ = IV(0);
    em->end_   = IV(1);
    break;
  }

  // sort the vertices by increasing index

  if(em->start_ > em->end_) {
    swap = em->start_;
    em->start_ = em->end_;
    em->end_ = swap;
  }

  // check all previous edges for a match, return pointer if 
  // already present, log the midpoint with the new face as well
   
  if( (en=edgeMatch(em)) != NULL){
    IW(k) = en->mid_;
    return emindex;
  }

// this is a new edge, immediately process the midpoint, 
// and save it with the nodes and the edge as well

  insertLookup(em);
  IW(k)      = getMidPoint(em);
  em->mid_   = IW(k);
  return ++emindex;
}


/////////////INSERTLOOKUP/////////////////////////////////
// insertLookup: insert the edge em into the lookup table.
//               indexed by em->start_.
//               Every vertex has at most 6 edges, so only
//               that much lookup needs to be done.
void 
SpatialEdge::insertLookup(Edge *em)
{
int j = 6 * em->start_;
int i;

// do not loop beyond 6

   for(i=0; i<6; i++, j++)
       if ( lTab_[j] == NULL ) {
           lTab_[j] = em;
           return;
       }
}

/////////////EDGEMATCH////////////////////////////////////
// edgeMatch: fast lookup using the first index em->start_.
//            return pointer to edge if matches, null if not.
#if defined(__sun) && !defined(__gnu)
Edge *
#else
SpatialEdge::Edge *
#endif
SpatialEdge::edgeMatch(Edge *em)
{
int i = 6 * em->start_;

   while ( lTab_[i] != NULL ) {
     if(em->end_ == lTab_[i]->end_ ) return lTab_[i];
     i++;
   }
   return NULL;
}

/////////////GETMIDPOINT//////////////////////////////////
// getMidPoint: compute the midpoint of the edge using vector
//              algebra and return its index in the vertex list
size_t 
SpatialEdge::getMidPoint(Edge *em)
{
  tree_.vertices_[index_] = tree_.vertices_[em->start_] + 
                                  tree_.vertices_[em->end_]; 
  tree_.vertices_[index_].normalize();
  return index_++;
}
