//#     Filename:       VarStr.cpp
//#
//#     VarStr class functions
//#
//#
//#     Author:         Peter Z Kunszt
//#     
//#     Date:           July 4 2000
//#
//#
//#
/* --- VarStr methods ------------------------------------------------------ */
#include "SpatialGeneral.h"
#include "VarStr.h"
#include <string.h>

// destructor
VarStr::~VarStr( void ) {
   if ( vector_ )
      free( vector_ );
}

// default constructor

VarStr::VarStr( size_t capacity, size_t increment ) :
	increment_(0), 
	vector_(NULL), 
	length_(0), 
	capacity_(0)
{
   insert( capacity );
   increment_ = increment;
   length_ = 0;
}

// construct with a string

VarStr::VarStr( const char * str ) : 
	increment_(0), 
	vector_(NULL), 
	length_(0), 
	capacity_(0)
{
  *this += str;
}

// copy constructor

VarStr::VarStr( const VarStr &orig )
{
   capacity_  = orig.capacity_;
   increment_ = orig.increment_;
   length_    = orig.length_;
   vector_    = 0;
   if(orig.vector_)vector_ = (char *)malloc( orig.capacity_ );
   memcpy( vector_, orig.vector_, capacity_ );

}

// assignment/copy operator

VarStr&	VarStr::operator =( const VarStr &orig )
{
   if ( &orig == this ) return *this;

   capacity_  = orig.capacity_;
   increment_ = orig.increment_;
   length_    = orig.length_;
   if(vector_)free( vector_ );
   vector_ = 0;
   if(orig.vector_)vector_ = (char *)malloc( orig.capacity_ );
   memcpy( vector_, orig.vector_, capacity_ );

   return *this;
}

VarStr&	VarStr::operator =( const char *orig ) {
   clear();
   *this += orig;
   return *this;
}

VarStr&	VarStr::operator =( const char orig ) {
   clear();
   *this += orig;
   return *this;
}

VarStr&	VarStr::operator =( const int orig ) {
   clear();
   *this += orig;
   return *this;
}

// bounds-checking array operator (const version)

char	VarStr::operator []( size_t index ) const
{
   if ( index >= length_ )
      throw _BOUNDS_EXCEPTION( "VarStr", "vector_", length_, index );
   return vector_[index];
}

// bounds-checking array operator (non-const version)

char&	VarStr::operator []( size_t index )	
{
   if ( index >= length_ )
      throw _BOUNDS_EXCEPTION( "VarStr", "vector_", length_, index );
   return vector_[index];
}

// comparison operator

int	VarStr::operator ==( const VarStr & orig ) const
{
   if ( length_ == orig.length_ && vector_ && orig.vector_ )
     return ( memcmp( vector_, orig.vector_, length_ ) ? 0 : 1 );
   return (length_ - orig.length_ == 0 ? 1 : 0);
}

// comparison operator : two empty strings are considered equal.

int	VarStr::operator ==( const char * orig ) const
{
   if ( vector_ && orig )
     return ( strcmp( vector_, orig ) == 0 ? 1 : 0 );
   if ( orig )
     return strlen(orig) ? 0 : 1;
   if( vector_ )
     return length_ ? 0 : 1;
   return 1;
}

// comparison operator

int	VarStr::operator !=( const VarStr & orig ) const
{
   if ( length_ == orig.length_ && vector_ && orig.vector_ )
     return ( memcmp( vector_, orig.vector_, length_ ) ? 1 : 0 );
   return (length_ - orig.length_ == 0 ? 0 : 1);
}

// comparison operator : two empty strings are considered equal.

int	VarStr::operator !=( const char * orig ) const
{
   if ( vector_ && orig )
     return ( strcmp( vector_, orig ) == 0 ? 0 : 1 );
   if ( orig )
     return strlen(orig) ? 1 : 0;
   if( vector_ )
     return length_ ? 1 : 0;
   return 0;
}

// extension operator

VarStr & VarStr::operator +=( const VarStr & orig )
{
   size_t len = length_;
   at( length_ + orig.length_ - 1 );
   memcpy( vector_+len, orig.vector_, orig.length_ );
   at( length_ ) = 0; length_--;

   return *this;
}

// extension operator

VarStr & VarStr::operator +=( const char * orig )
{
   if( orig == NULL) return *this;
   size_t len = length_, len2 = strlen(orig);
   at( length_ + len2 - 1 );
   memcpy( vector_+len, orig, len2 );
   at( length_ ) = 0; length_--;

   return *this;
}

// extension operator

VarStr & VarStr::operator +=( const char orig )
{
   at( length_ ) = orig;
   at( length_ ) = 0; length_--;

   return *this;
}

VarStr & VarStr::operator +=( const int orig )
{
   char str[50];
   sprintf(str,"%d",orig);
   *this += str;

   return *this;
}

// extension operator

VarStr & operator +( const VarStr &one, const VarStr &two )
{
   VarStr *res = new VarStr(one);
   *res += two;
   return *res;
}

VarStr & operator +( const VarStr &one, const char * two )
{
   VarStr *res = new VarStr(one);
   *res += two;
   return *res;
}

VarStr & operator +( const char * two, const VarStr &one )
{
   VarStr *res = new VarStr(one);
   *res += two;
   return *res;
}

// at method: bounds-adjusting array operator

char&	VarStr::at( size_t index )
{
   if ( index >= length_ ) insert( 1 + index - length_ );
   return vector_[index];
}

// append method: efficiently insert element at end of array

size_t	VarStr::append( const char t )
{
   (length_ < capacity_ ? vector_[length_++] : at(length_)) = t;
   return length_;
}

// insert method: insert and initialize new array elements

size_t	VarStr::insert( size_t count, size_t offset, char c )
{
   if ( offset > length_ )
      throw _BOUNDS_EXCEPTION("VarStr::insert","offset greater than length");

   size_t newLength	= length_ + count;
   size_t start		= length_ - offset;
   size_t i;

   if ( newLength > capacity_ ) {
      // allocate new vector
      size_t cap = increment_ ? capacity_ + increment_ : 2 * capacity_;
      if ( newLength > cap ) cap = newLength;
      char *vec = (char*) malloc( cap );

      // bitwise copy original occupied region into new vector
      if ( length_ ) {
	 memcpy( vec, vector_, start );
	 memcpy( vec + start + count, vector_ + start, offset );
      }

      for ( i = 0; i < count; ++i ) vec[start+i] = c;

      // construct new unoccupied region with default
      for ( i = newLength; i < cap; ++i ) vec[i] = 0;

      // replace old vector with new vector
      char *oldVec = vector_;
      vector_ = vec;
      capacity_ = cap;

      // destroy original unoccupied region and free discarded vector
      if ( oldVec )
	 free( oldVec );
   }
   else if ( count )
      if ( offset ) {
	// bitwise move displaced portion of occupied region
	memmove(vector_+start+count, vector_+start, offset );

	// construct vacated region with fill or default
	for ( i = 0; i < count; ++i ) vector_[start+i] = c;
      } else 
	for ( i = 0; i < count; ++i ) vector_[length_+i] = c;

   return length_ = newLength;
}

// cut method: remove array elements

size_t	VarStr::cut( size_t count, size_t offset )
{
   if ( count + offset > length_ )
      throw _BOUNDS_EXCEPTION("VarStr::cut","count+offset greater than length");

   if ( count && offset ) {
     size_t i;
     char *start = vector_ + length_ - offset - count;

     // bitwise move displaced portion of occupied region
     memmove( start, start + count, offset );

     // construct vacated region with default
     for ( i = 0; i < count; ++i ) start[offset+i] = 0;
   }
   return length_ -= count;
}

// clear method

void	VarStr::clear( void )
{
  for(size_t i = 0; i < length_; i++)
    vector_[i] = 0;
  length_ = 0;
}

// remove method: call cut

void	VarStr::remove( size_t offset, size_t n )
{
   if ( offset >= length_ )
      throw _BOUNDS_EXCEPTION("VarStr::remove","count greater than length");

   cut(n, length_ - offset - 1);
   return;
}


///////////////////////////////TOKENIZER///////////////////////

// constructors
VarStrToken::VarStrToken( const VarStr & vstr ) : 
  delimiters_(NULL), start_(true) {
  str_ = new char[ vstr.length() + 1];
  strcpy( str_, vstr.vector_ );
}

// Construct from a standard string

VarStrToken::VarStrToken( const char *str ) : 
  delimiters_(NULL), start_(true) {
  str_ = new char[ strlen(str) + 1 ];
  strcpy( str_, str );
}

/** Destructor. */

VarStrToken::~VarStrToken( void ) {
  delete[] str_;
  if(delimiters_) delete[] delimiters_;
}

/** Get next token. You can optionally specify
    the characters that serve as delimiters. The default is whitespace. */
const VarStr &
VarStrToken::next( const char *d ) {

  char *s = NULL;

  if(d) {
    if(delimiters_)delete[] delimiters_;
    delimiters_ = new char[ strlen(d) + 1 ];
    strcpy( delimiters_, d );
    if(start_) {
      start_ = false;
      s = str_;
    }
  } else if(start_) {
    delimiters_ = new char[5];
    strcpy( delimiters_, " \t\n\r");
    start_ = false;
    s = str_;
  }

#ifdef _WIN32
  // Windows claims its strtok is thread-safe
  token_ = strtok( s, delimiters_ );
#else
  token_ = strtok_r( s, delimiters_, &save_ );
#endif
  return token_;

}

