//# SpatialDoc.h
//#
//# Just for documentations' sake.
//#
//# Author:		Peter Z. Kunszt
//#	
//# Creation:		October 19, 1999
//#
//# (c) Copyright The Johns Hopkins University 1999
//# All Rights Reserved
//#
//# The software and information contained herein are proprietary to The
//# Johns Hopkins University, Copyright 1995, 1996. This software is furnished
//# pursuant to a written license agreement and may be used, copied,
//# transmitted, and stored only in accordance with the terms of such
//# license and with the inclusion of the above copyright notice.  This
//# software and information or any other copies thereof may not be
//# provided or otherwise made available to any other person.
//#
//# Modification History:

/** Types Defined by the SpatialIndex Package. (if not already defined)


<pre>
 bool           Boolean type, and the constants 'true' and 'false'

 int8           Integer types up to 64 bits
 int16
 int32
 int64

 uint8          Unsigned integer types
 uint16
 uint32
 uint64

 float32        Float and double precision.
 float64
</pre>
*/
#define HTMTYPES

