#ifndef _SpatialConvex_h
#define _SpatialConvex_h
//#     Filename:       SpatialConvex.h
//#
//#     Classes defined here: SpatialConvex
//#
//#
//#     Author:         Peter Z. Kunszt, based on A. Szalay's code
//#     
//#     Date:           October 16, 1998
//#
//#
//#
//# (c) Copyright The Johns Hopkins University 1998
//# All Rights Reserved
//#
//# The software and information contained herein are proprietary to The
//# Johns Hopkins University, Copyright 1998.  This software is furnished
//# pursuant to a written license agreement and may be used, copied,
//# transmitted, and stored only in accordance with the terms of such
//# license and with the inclusion of the above copyright notice.  This
//# software and information or any other copies thereof may not be
//# provided or otherwise made available to any other person.
//#
//#

#include "SpatialConstraint.h"
#include "SpatialIndex.h"
#include "BitList.h"

/** Enumerator. Define the return values of an intersection */

enum SpatialMarkup {
  /// Uncertain
  dONTKNOW,
  /// Triangle partially intersected
  pARTIAL,
  /// All of the triangle is inside queried area
  fULL,
  /// Triangle is outside the queried area
  rEJECT
};


//########################################################################
//#
//# Spatial Convex class
//#
/**
   A spatial convex is composed of spatial constraints. It does not
   necessarily define a continuous area on the sphere since it is a
   3D-convex of planar intersections which may intrersect with the
   unit sphere at disjoint locations. Especially 'negative'
   constraints tend to tear 'holes' into the convex area.
*/

//class LINKAGE SpatialConvex : public SpatialSign {
class SpatialConvex : public SpatialSign {
public:
  /// Default Constructor
  SpatialConvex();

  /// Constructor from a triangle
  SpatialConvex(const SpatialVector * v1,
		const SpatialVector * v2,
		const SpatialVector * v3);

  /// Constructor from a rectangle
  SpatialConvex(const SpatialVector * v1,
		const SpatialVector * v2,
		const SpatialVector * v3,
		const SpatialVector * v4);

  /// Copy constructor
  SpatialConvex(const SpatialConvex &);

  /// Assignment
  SpatialConvex& operator =(const SpatialConvex &);

  /// Add a constraint
  void add(SpatialConstraint &);

  /// Simplify the convex, remove redundancies
  void simplify();

  /** 
      Intersect with index. 
      The partial and full bitlists for the result have to be
      given. If the conves occupies a large percent of the area
      of the sphere, bitlists are the preferred result method.
  */
  void intersect(const SpatialIndex * index,
		 BitList * partial, BitList * full);

  /** 
      Intersect with index.
      Same intersection as with bitlists (see above), but the result
      is given in a list of nodes.  If the conves is very small, this
      is the preferred result method.  
  */
  void intersect(const SpatialIndex * index,
		 ValVec<uint64> * partial, ValVec<uint64> * full);

  /** 
      Intersect with index.
      Now only a single list of IDs is returned. The IDs need not be
      level.
  */
  void intersect(const SpatialIndex * index,
		 ValVec<uint64> * idList);

  /// Return the number of constraints
  size_t numConstraints();

  /// [] operator: give back constraint
  SpatialConstraint & operator [](size_t i);

  /// read from stream
  void read(std::istream&);

  /// read from stream
  void readRaDec(std::istream&);

  /// set ra,dec,d from user
  void setRaDecD(float64 ra, float64 dec, float64 d);

  /// write to stream
  void write(std::ostream&) const;

private:

  // Do the intersection (common function for overloaded intersect())
  void doIntersect();

  // Simplification routine for zERO convexes. This is called by
  // simplify() in case we have all zERO constraints.
  void simplify0();

  // This is the testsuit for the intersection.

  // triangleTest: Test the nodes of the index if the convex hits it
  // the argument gives the index of the nodes_ array to specify the QuadNode
  SpatialMarkup triangleTest(uint64 nodeIndex);

  // fillChildren: Mark the child nodes as markup.
  void fillChildren(uint64 nodeIndex);

  // test each quadnode for intersections. Calls testTriangle after having
  // tested the vertices using testVertex.
  SpatialMarkup testNode(const SpatialVector & v0, 
			 const SpatialVector & v1, 
			 const SpatialVector & v2);

  // testTriangle: tests a triangle given by 3 vertices if
  // it intersects the convex. Here the whole logic of deciding
  // whether it is partial, full, swallowed or unknown is handled.
  SpatialMarkup testTriangle(const SpatialVector & v0, 
			     const SpatialVector & v1, 
			     const SpatialVector & v2,
			     int vsum);

  // setfull: set the full bitlist for each node below this level.
  void setfull(uint64 id, size_t level);

  // test a triangle's subtriangles whether they are partial.
  // If level is nonzero, recurse: subdivide the
  // triangle according to our rules and test each subdivision.
  // (our rules are: each subdivided triangle has to be given
  // ordered counter-clockwise, 0th index starts off new 0-node,
  // 1st index starts off new 1-node, 2nd index starts off new 2-node
  // middle triangle gives new 3-node.)
  // if we are at the bottom, set this id's leafindex in partial bitlist.
  void testPartial(size_t level, uint64 id,
		   const SpatialVector & v0, 
		   const SpatialVector & v1, 
		   const SpatialVector & v2);

  // call full or partial depending on result of testNode.
  void testSubTriangle(size_t level, uint64 id,
		       const SpatialVector & v0, 
		       const SpatialVector & v1, 
		       const SpatialVector & v2);

  // Test for constraint relative position; intersect, one in the
  // other, disjoint.
  int testConstraints(size_t i, size_t j);

  // Test if vertices are inside the convex for a node.
  int testVertex(const SpatialVector & v);

  // testHole : look for 'holes', i.e. negative constraints that have their
  // centers inside the node with the three corners v0,v1,v2.
  bool testHole(const SpatialVector & v0, 
		const SpatialVector & v1, 
		const SpatialVector & v2);

  // testEdge0: test the edges of the triangle against the edges of the
  // zERO convex. The convex is stored in corners_ so that the convex
  // is always on the left-hand-side of an edge corners_(i) - corners_(i+1).
  // (just like the triangles). This makes testing for intersections with
  // the edges easy.
  bool testEdge0(const SpatialVector & v0, 
		 const SpatialVector & v1, 
		 const SpatialVector & v2);

  // testEdge: look whether one of the constraints intersects with one of
  // the edges of node with the corners v0,v1,v2.
  bool testEdge(const SpatialVector & v0, 
		const SpatialVector & v1, 
		const SpatialVector & v2);

  // eSolve: solve the quadratic equation for the edge v1,v2 of
  // constraint[cIndex]
  bool eSolve(const SpatialVector & v1, 
	      const SpatialVector & v2, size_t cIndex);

  // Test if bounding circle intersects with a constraint
  bool testBoundingCircle(const SpatialVector & v0, 
			  const SpatialVector & v1, 
			  const SpatialVector & v2);

  // Test if a constraint intersects the edges
  bool testEdgeConstraint(const SpatialVector & v0, 
			  const SpatialVector & v1, 
			  const SpatialVector & v2, 
			  size_t cIndex);

  // Look for any positive constraint that does not intersect the edges
  size_t testOtherPosNone(const SpatialVector & v0, 
			  const SpatialVector & v1, 
			  const SpatialVector & v2);

  // Test for a constraint lying inside or outside of triangle
  bool testConstraintInside(const SpatialVector & v0, 
			    const SpatialVector & v1, 
			    const SpatialVector & v2, 
			    size_t cIndex);

  // Test for a vector lying inside or outside of triangle
  bool testVectorInside(const SpatialVector & v0, 
			const SpatialVector & v1, 
			const SpatialVector & v2, 
			SpatialVector & v);

  ValVec<SpatialConstraint> constraints_; // The vector of constraints
  const SpatialIndex * index_;		  // A pointer to the index
  ValVec<SpatialVector> corners_;	  // The corners of a zERO convex
  SpatialConstraint boundingCircle_;	  // For zERO convexes, the bc.
  size_t addlevel_;			  // additional levels to calculate
  BitList * full_;			  // bitlist of full nodes
  BitList * partial_;			  // bitlist of partial nodes
  ValVec<uint64> * flist_;		  // list of full node ids
  ValVec<uint64> * plist_;		  // list of partial node ids
  bool bitresult_;			  // flag which result (bit or list)
  bool range_;			  	  // return range results

  friend class SpatialDomain;
  friend class sxSpatialDomain;
};

#include "SpatialConvex.hxx"

#endif
