//#     Filename:       SpatialVector.hxx
//#
//#     Standard 3-d vector class: .h implementations
//#
//#
//#     Author:         Peter Z. Kunszt
//#     
//#     Date:           October 15, 1998
//#
//#
//#
//# (c) Copyright The Johns Hopkins University 1998
//# All Rights Reserved
//#
//# The software and information contained herein are proprietary to The
//# Johns Hopkins University, Copyright 1998.  This software is furnished
//# pursuant to a written license agreement and may be used, copied,
//# transmitted, and stored only in accordance with the terms of such
//# license and with the inclusion of the above copyright notice.  This
//# software and information or any other copies thereof may not be
//# provided or otherwise made available to any other person.
//#
//#
// Friend operators
SpatialVector operator *(float64, const SpatialVector&);
SpatialVector operator *(int, const SpatialVector&);
SpatialVector operator *(const SpatialVector&, float64);
SpatialVector operator *(const SpatialVector&, int);

// inline functions

inline
float64 SpatialVector::x() const {
  return x_;
}

inline
float64 SpatialVector::y() const {
  return y_;
}

inline
float64 SpatialVector::z() const {
  return z_;
}

/////////////>>///////////////////////////////////////////
// read from istream
//
inline
std::istream& operator >>( std::istream& in, SpatialVector & v) {
  v.read(in);
  return(in);
}

/////////////<<///////////////////////////////////////////
// write to ostream
//
inline
std::ostream& operator <<( std::ostream& out, const SpatialVector & v) {
  v.write(out);
  return(out);
}
