#ifndef _SpatialDomain_h
#define _SpatialDomain_h
//#     Filename:       SpatialDomain.h
//#
//#     Classes defined here: SpatialDomain
//#
//#
//#     Author:         Peter Z. Kunszt
//#     
//#     Date:           October 16, 1998
//#
//#
//#
//# (c) Copyright The Johns Hopkins University 1998-1999
//# All Rights Reserved
//#
//# The software and information contained herein are proprietary to The
//# Johns Hopkins University, Copyright 1999.  This software is furnished
//# pursuant to a written license agreement and may be used, copied,
//# transmitted, and stored only in accordance with the terms of such
//# license and with the inclusion of the above copyright notice.  This
//# software and information or any other copies thereof may not be
//# provided or otherwise made available to any other person.
//#
//#


#include "SpatialConvex.h"
#include "BitList.h"

//########################################################################
//
// Spatial Domain class
//
// 

/** A spatial domain is a list of spatial convexes. So we can have
 really disjoint pieces of the sky defined by a domain.  */

//class LINKAGE SpatialDomain {
class SpatialDomain {
public:
  /// Constructor
  SpatialDomain(const SpatialIndex * idx = 0);

  /// Destructor
  ~SpatialDomain();

  /// Set index pointer
  void setIndex(const SpatialIndex *);

  /// Add a convex
  void add(SpatialConvex &);

  /// Simplify the Domain, remove redundancies
  void simplify();

  /** Intersect with index. 
      Return the bitlist of the leafnodes that are
      partially and fully intersected by this domain. */
  bool intersect(const SpatialIndex * idx, 
		 BitList & partial, BitList & full);

  /// Same intersection, but return vectors of ids instead of bitlists.
  bool intersect(const SpatialIndex * idx, 
		 ValVec<uint64> & partial, ValVec<uint64> & full);

  /// Same intersection, but return just a list of IDs not level depth
  bool intersect(const SpatialIndex * idx, ValVec<uint64> & idlist);

  /// numConvexes: give back the number of convexes
  size_t numConvexes();

  /// [] operator: give back convex
  SpatialConvex & operator [](size_t i);

  /// read from stream
  void read(std::istream&);

  /// set ra,dec,d from user
  void setRaDecD(float64 ra, float64 dec, float64 d);

  /// write to stream
  void write(std::ostream&) const;

  const SpatialIndex * index; 		/// A pointer to the index

  static void ignoreCrLf(std::istream &);
protected:
  ValVec<SpatialConvex> convexes_;      /// The vector of convexes

public:
  static uint64 topBit_;
};

#include "SpatialDomain.hxx"
#endif
