#ifndef _SpatialEdge_h
#define _SpatialEdge_h
//#     Filename:       SpatialEdge.h
//#
//#     SpatialEdge is a helper class for the spatial index at construction
//#     time.
//#
//#
//#     Author:         Peter Z. Kunszt, based on A. Szalay's code
//#     
//#     Date:           October 15, 1998
//#
//#
//#
//# (c) Copyright The Johns Hopkins University 1998
//# All Rights Reserved
//#
//# The software and information contained herein are proprietary to The
//# Johns Hopkins University, Copyright 1998.  This software is furnished
//# pursuant to a written license agreement and may be used, copied,
//# transmitted, and stored only in accordance with the terms of such
//# license and with the inclusion of the above copyright notice.  This
//# software and information or any other copies thereof may not be
//# provided or otherwise made available to any other person.
//#
//#

#include "SpatialIndex.h"

// Forward declarations
class SpatialIndex;

//########################################################################
//
// <GROUP>
// <SUMMARY>Class declarations</SUMMARY>
// 

//########################################################################
//
// <SUMMARY> Spatial Edge class </SUMMARY>
//
// The Edges are needed at construction time of the spatial index. 
// They are used to generate the midpoints of the nodes in a certain layer.
// The interface is simple: construct a class giving it the SpatialIndex
// and the layer number. Then call makeMidPoints. The SpatialIndex will
// then have its midpoint constructed in every QuadNode.

//class LINKAGE SpatialEdge {
class SpatialEdge {
public:
  // Constructor : give the tree and its layer
  SpatialEdge(SpatialIndex & tree, size_t layerindex);

  // Destructor
  ~SpatialEdge();

  // Interface to class: generate midpoints.
  void makeMidPoints();

private:
  struct Edge {
    size_t	start_;		// starting vertex index of edge
    size_t	end_;		// index of end
    size_t 	mid_;		// index of center
  };

  // Make a new edge, in the temporary edges_ at emindex, at node_[index]
  // using the k'th side. Since every edge belongs to two faces, we have]
  // to check wether an edge has been already processed or not (i.e. the
  // midpoint has been constructed or not). We have a lookup table for
  // this purpose. Every edge is stored at lTab[start_]. There may be
  // up to 6 edges in every vertex[start_] so if that table place is occupied,
  // store it in the next table position (and so on). So we only have to
  // look up 6 positions at most.
  size_t newEdge(size_t emindex, size_t index, int k);

  // insert the edge em into the lookup table
  void insertLookup(Edge *em);

  // lookup the edge em in the lookup table
  Edge * edgeMatch(Edge *em);

  // generate a new vertex, which is the midpoint of the current edge.
  size_t getMidPoint(Edge * em);

  SpatialIndex &	tree_;		// reference to the tree class
  size_t		layerindex_;	// index of the layer
  Edge ** 		lTab_;		// Edges lookup table
  Edge *  		edges_;		// Edges array
  size_t		index_;		// index of the vertex that is built
};

// </GROUP>
// 

#endif
