//# SpatialException.cpp
//#
//# Author:    John Doug Reynolds, P. Kunszt
//# 
//# Creation:  March 1997
//#
//#
//# (c) Copyright The Johns Hopkins University 1995
//# All Rights Reserved
//#
//# The software and information contained herein are proprietary to The
//# Johns Hopkins University, Copyright 1995.  This software is furnished
//# pursuant to a written license agreement and may be used, copied,
//# transmitted, and stored only in accordance with the terms of such
//# license and with the inclusion of the above copyright notice.  This
//# software and information or any other copies thereof may not be
//# provided or otherwise made available to any other person.
//#
//#
//# Modification history:
//#
//# Oct. 1998, P. Kunszt : remove Rogue Wave C-string dependency
//#                        almost all the interface had to be rewritten.
//#			   Also, use some of the inheritance to avoid
//#			   code duplication. Introduced defaultstr[].

#include <stdio.h>
#include <stdlib.h>
#include <string.h>
#include <SpatialException.h>

/* --- SpatialException methods ------------------------------------------------- */
const char *
SpatialException::defaultstr[] = {
  "SDSS Science Archive",
  "generic exception",			// These specialized exceptions are
  "unimplemented functionality",	// currently implemented. If no string
  "failed operation",			// is given, this is the standard
  "array bounds violation",		// message.
  "interface violation"
};

#define CONTEXT 	0		// indices of exceptions
#define GENERIC 	1
#define UNIMPLEMENTED 	2
#define FAILURE 	3
#define BOUNDS 		4
#define INTERFACE	5

SpatialException::~SpatialException() throw() {
  if(str_)free(str_);
}

SpatialException::SpatialException( const char *cstr, int defIndex ) throw()
{
   try {
     if ( cstr ) {
       str_ = new char[slen(cstr) + 1];
       strcpy(str_,cstr);
     } else {
       str_ = new char[50];
       sprintf(str_,"%s : %s",defaultstr[CONTEXT],defaultstr[defIndex]);
     }
   }
   catch (...) {
     delete[] str_;
   }
}

SpatialException::SpatialException( const char *context, const char *because,
			  int defIndex) throw()
{
   try {
     const char * tmpc, * tmpb;
     tmpc = context ? context : defaultstr[CONTEXT];
     tmpb = because ? because : defaultstr[defIndex];
     str_ = new char[slen(tmpc) + slen(tmpb) + 50]; // allow extensions
     sprintf(str_,"%s : %s",tmpc,tmpb);
   }
   catch (...) {
     delete[] str_;
   }
}

SpatialException::SpatialException( const SpatialException& oldX ) throw()
{
  try {
    if(oldX.str_) {
      str_ = new char[slen(oldX.str_) + 1];
      strcpy(str_,oldX.str_);
    }
  }
  catch (...) {
    delete[] str_;
  }
}

SpatialException& SpatialException::operator=( const SpatialException& oldX ) throw()
{
   try {
     if(&oldX != this) { // beware of self-assignment
       if(oldX.str_) {
	 str_ = new char[slen(oldX.str_) + 1];
	 strcpy(str_,oldX.str_);
       }
     }
   }
   catch (...) {
     delete[] str_;
   }
   return *this;
}

const char *SpatialException::what() const throw()
{
   try {
      return str_;
   }
   catch (...) {
      return "";
   }
}

int SpatialException::slen(const char *str) const
{
  if(str)return strlen(str);
  return 0;
}

void SpatialException::clear()
{
  if(str_)delete[] str_;
}
/* --- SpatialUnimplemented methods --------------------------------------------- */

SpatialUnimplemented::SpatialUnimplemented( const char *cstr ) throw()
: SpatialException(cstr,UNIMPLEMENTED)
{
}

SpatialUnimplemented::SpatialUnimplemented( const char *context, const char *because )
   throw()
  : SpatialException(context, because, UNIMPLEMENTED)
{
}

SpatialUnimplemented::SpatialUnimplemented( const SpatialUnimplemented& oldX ) throw()
  : SpatialException(oldX)
{
}

/* --- SpatialFailure methods --------------------------------------------------- */

SpatialFailure::SpatialFailure( const char *cstr ) throw()
  : SpatialException(cstr, FAILURE)
{
}

SpatialFailure::SpatialFailure( const char *context, const char *because ) throw()
  : SpatialException(context,because,FAILURE)
{
}

SpatialFailure::SpatialFailure( const char *context, const char *operation
		      , const char *resource, const char *because ) throw()
{
   try {
      delete[] str_;
      if ( !operation && !resource && !because ) {
	 if ( !context ) context = defaultstr[CONTEXT];
	 because = "failed operation";
      }
      str_ = new char[ slen(context) + slen(operation) + slen(resource)
		      + slen(because) + 50];
      *str_ = '\0';
      if ( !context )
	context = defaultstr[CONTEXT];
      sprintf(str_,"%s: ",context);
      if ( operation ) {
	 sprintf(str_,"%s %s failed ",str_, operation);
      }
      if ( resource ) {
	 if(operation)
	   sprintf(str_,"%s on \"%s\"",str_,resource);
	 else
	   sprintf(str_,"%s trouble with \"%s\"",str_,resource);
      }
      if ( because ) {
	 if ( operation || resource )
	   sprintf(str_,"%s because %s",str_,because);
	 else
	   sprintf(str_,"%s %s",str_,because);
      }
   }
   catch (...) {
     delete[] str_;
   }
}

SpatialFailure::SpatialFailure( const SpatialFailure& oldX ) throw()
  : SpatialException(oldX)
{
}

/* --- SpatialBoundsError methods ----------------------------------------------- */

SpatialBoundsError::SpatialBoundsError( const char *cstr ) throw()
  : SpatialException(cstr,BOUNDS)
{
}

SpatialBoundsError::SpatialBoundsError( const char *context, const char *array
			      , int32 limit, int32 index ) throw()
  : SpatialException(context,array,BOUNDS)
{
   try {
     if ( limit != -1 ) {
       if ( array )
	   sprintf(str_,"%s[%d]",str_,index);
	 else
	   sprintf(str_, "%s array index %d ",str_, index );

	 if ( index > limit ) {
	   sprintf( str_, "%s over upper bound by %d",str_, index - limit );
	 }
	 else {
	   sprintf( str_, "%s under lower bound by %d",str_, limit - index );
	 }
      }
   }
   catch (...) {
     delete[] str_;
   }
}

SpatialBoundsError::SpatialBoundsError( const SpatialBoundsError& oldX ) throw()
  : SpatialException(oldX)
{
}

/* --- SpatialInterfaceError methods -------------------------------------------- */

SpatialInterfaceError::SpatialInterfaceError( const char *cstr ) throw()
  : SpatialException(cstr,INTERFACE)
{
}

SpatialInterfaceError::SpatialInterfaceError( const char *context, const char *because )
   throw()
  : SpatialException(context,because,INTERFACE)
{
}

SpatialInterfaceError::SpatialInterfaceError( const char *context, const char *argument
				 , const char *because ) throw()
{
   try {
      delete[] str_;
      str_ = new char[slen(context) + slen(argument) + slen(because) + 128];
      *str_ = '\0';
      if ( !context )
	context = defaultstr[CONTEXT];
      sprintf(str_,"%s: ",context);
      if ( argument && because ) {
	 sprintf(str_,"%s argument \"%s\" is invalid because %s ",str_,
		 argument, because);
      }
      else if ( argument && !because ) {
	 sprintf(str_,"%s invalid argument \"%s\" ",str_,
		 argument);
      }
      else if ( !argument )
	if(because)
	  sprintf(str_,"%s %s",str_,because);
	else
	  sprintf(str_,"%s interface violation",str_);
   }
   catch (...) {
     delete[] str_;
   }
}

SpatialInterfaceError::SpatialInterfaceError( const SpatialInterfaceError& oldX ) throw()
  : SpatialException(oldX)
{
}
