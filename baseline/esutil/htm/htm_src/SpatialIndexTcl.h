#include "stdio.h"
#include "SpatialIndex.h"

#define gNameLength        20
#define gLeafNumberLength  20
#define gIDLength          20
#define gFloatLength       20


