//#     Filename:       SpatialConstraint.hxx
//#
//#     H implementations for spatialconstraint
//#
//#
//#     Author:         Peter Z. Kunszt, based on A. Szalay's code
//#     
//#     Date:           October 16, 1998
//#
//#
//#
//# (c) Copyright The Johns Hopkins University 1998
//# All Rights Reserved
//#
//# The software and information contained herein are proprietary to The
//# Johns Hopkins University, Copyright 1998.  This software is furnished
//# pursuant to a written license agreement and may be used, copied,
//# transmitted, and stored only in accordance with the terms of such
//# license and with the inclusion of the above copyright notice.  This
//# software and information or any other copies thereof may not be
//# provided or otherwise made available to any other person.
//#
//#
extern std::istream& operator >>( std::istream&, SpatialConstraint &);
extern std::ostream& operator <<( std::ostream&, const SpatialConstraint &);

// 
inline
SpatialVector &
SpatialConstraint::v() {
  return a_;
}

inline
float64
SpatialConstraint::d() const {
  return d_;
}

inline
void
SpatialConstraint::setVector(SpatialVector &v) {
  a_.set(v.x(),v.y(),v.z());
}

inline
void
SpatialConstraint::setDistance(float64 d) {
  d_ = d;
}

