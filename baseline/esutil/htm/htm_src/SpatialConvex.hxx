//#     Filename:       SpatialConvex.hxx
//#
//#     H definitions for  SpatialConvex
//#
//#
//#     Author:         Peter Z. Kunszt, based on A. Szalay's code
//#     
//#     Date:           October 16, 1998
//#
//#
//#
//# (c) Copyright The Johns Hopkins University 1998
//# All Rights Reserved
//#
//# The software and information contained herein are proprietary to The
//# Johns Hopkins University, Copyright 1998.  This software is furnished
//# pursuant to a written license agreement and may be used, copied,
//# transmitted, and stored only in accordance with the terms of such
//# license and with the inclusion of the above copyright notice.  This
//# software and information or any other copies thereof may not be
//# provided or otherwise made available to any other person.
//#
//#
extern std::istream& operator >>( std::istream&, SpatialConvex &);
extern std::ostream& operator <<( std::ostream&, const SpatialConvex &);


inline
SpatialConstraint &
SpatialConvex::operator [](size_t i) {
  return constraints_[i];
}

inline
size_t
SpatialConvex::numConstraints() {
  return constraints_.length();
}
