//#     Filename:       SpatialVector.cpp
//#
//#     The SpatialVector class is defined here.
//#
//#     Author:         Peter Z. Kunszt based on A. Szalay's code
//#
//#     Date:           October 15, 1998
//#
//#
//#
//# (c) Copyright The Johns Hopkins University 1998
//# All Rights Reserved
//#
//# The software and information contained herein are proprietary to The
//# Johns Hopkins University, Copyright 1998.  This software is furnished
//# pursuant to a written license agreement and may be used, copied,
//# transmitted, and stored only in accordance with the terms of such
//# license and with the inclusion of the above copyright notice.  This
//# software and information or any other copies thereof may not be
//# provided or otherwise made available to any other person.
//#
//#
//#     Modification History:
//#
#include "SpatialVector.h"
#include "SpatialException.h"

//==============================================================
//
// This 3D vector lives on the surface of the sphere.
// Its length is always 1.
//
//==============================================================

/////////////CONSTRUCTOR//////////////////////////////////
//
SpatialVector::SpatialVector() : 
  x_(1), y_(0), z_(0), ra_(0), dec_(0), okRaDec_(true) {
}


SpatialVector::SpatialVector(float64 x, float64 y, float64 z) :
  x_(x), y_(y), z_(z), okRaDec_(false) {
}

/////////////CONSTRUCTOR//////////////////////////////////
//
SpatialVector::SpatialVector(float64 ra, float64 dec) :
    ra_(ra), dec_(dec), okRaDec_(true) {
  updateXYZ();
  updateRaDec();
}

/////////////COPY CONSTRUCTOR/////////////////////////////
//
SpatialVector::SpatialVector(const SpatialVector & vv) :
  x_(vv.x_), y_(vv.y_), z_(vv.z_), ra_(vv.ra_), dec_(vv.dec_), 
  okRaDec_(vv.okRaDec_) {
}

/////////////ASSIGNMENT///////////////////////////////////
//
SpatialVector&
SpatialVector::operator =(const SpatialVector & vv)
{
  x_ = vv.x_;
  y_ = vv.y_;
  z_ = vv.z_;
  ra_ = vv.ra_;
  dec_ = vv.dec_;
  okRaDec_ = vv.okRaDec_;
  return *this;
}

/////////////SET//////////////////////////////////////////
//
void
SpatialVector::set(const float64 &x, const float64 &y, const float64 &z )
{
  x_ = x;
  y_ = y;
  z_ = z;
  normalize();
  updateRaDec();
}
/////////////SET//////////////////////////////////////////
//
void
SpatialVector::set(const float64 &ra, const float64 &dec)
{
  ra_ = ra;  
  dec_ = dec;
  updateXYZ();
}

/////////////GET//////////////////////////////////////////
//
void
SpatialVector::get(float64 &x,float64 &y,float64 &z ) const
{
  x = x_;
  y = y_;
  z = z_;
}

/////////////GET//////////////////////////////////////////
//
void
SpatialVector::get(float64 &ra,float64 &dec )
{
  if(!okRaDec_) {
    normalize();
    updateRaDec();
  }
  ra = ra_;
  dec = dec_;
}

float64 SpatialVector::ra() {
  if(!okRaDec_) {
    normalize();
    updateRaDec();
  }
  return ra_;
}

float64 SpatialVector::dec() {
  if(!okRaDec_) {
    normalize();
    updateRaDec();
  }
  return dec_;
}


/////////////NORMALIZE////////////////////////////////////
//
void
SpatialVector::normalize()
{
float64 sum;
   sum = x_*x_ + y_*y_ + z_*z_;
   sum = sqrt(sum);
   x_ /= sum;
   y_ /= sum;
   z_ /= sum;
}

/////////////LENGTH///////////////////////////////////////
//
float64
SpatialVector::length() const
{
float64 sum;
   sum = x_*x_ + y_*y_ + z_*z_;
   return sum > gEpsilon ? sqrt(sum) : 0.0;
}

/////////////UPDATERADEC//////////////////////////////////
//
void
SpatialVector::updateRaDec() {
  dec_ = asin(z_)/gPr; // easy.
  float64 cd = cos(dec_*gPr);
  if(cd>gEpsilon || cd<-gEpsilon)
    if(y_>gEpsilon || y_<-gEpsilon)
      if (y_ < 0.0)
	ra_ = 360 - acos(x_/cd)/gPr;
      else
	ra_ = acos(x_/cd)/gPr;
    else
      ra_ = (x_ < 0.0 ? 180.0 : 0.0);
  else 
    ra_=0.0;
  okRaDec_ = true;
}

/////////////UPDATEXYZ////////////////////////////////////
//
void
SpatialVector::updateXYZ() {
    float64 cd = cos(dec_*gPr);
    x_ = cos(ra_*gPr) * cd;
    y_ = sin(ra_*gPr) * cd;
    z_ = sin(dec_*gPr);
}
/////////////OPERATOR *=//////////////////////////////////
//
SpatialVector&
SpatialVector::operator *=(float64 a)
{
  x_ = a*x_;  
  y_ = a*y_;  
  z_ = a*z_;
  okRaDec_ = false;
  return *this;
}

/////////////OPERATOR *=//////////////////////////////////
//
SpatialVector&
SpatialVector::operator *=(int a)
{
  x_ = a*x_;  
  y_ = a*y_;  
  z_ = a*z_;
  okRaDec_ = false;
  return *this;
}

/////////////OPERATOR *///////////////////////////////////
// Multiply with a number
//
SpatialVector
operator *(float64 a, const SpatialVector& v)
{
  return SpatialVector(a*v.x_, a*v.y_, a*v.z_);
}

/////////////OPERATOR *///////////////////////////////////
// Multiply with a number
//
SpatialVector
operator *(const SpatialVector& v, float64 a)
{
  return SpatialVector(a*v.x_, a*v.y_, a*v.z_);
}

/////////////OPERATOR *///////////////////////////////////
// Multiply with a number
//
SpatialVector
operator *(int a, const SpatialVector& v) 
{
  return SpatialVector(a*v.x_, a*v.y_, a*v.z_);
}

/////////////OPERATOR *///////////////////////////////////
// Multiply with a number
//
SpatialVector
operator *(const SpatialVector& v, int a)
{
  return SpatialVector(a*v.x_, a*v.y_, a*v.z_);
}


/////////////OPERATOR *///////////////////////////////////
// dot product
//
float64
SpatialVector::operator *(const SpatialVector & v) const
{
   return (x_*v.x_)+(y_*v.y_)+(z_*v.z_);
}

/////////////OPERATOR +///////////////////////////////////
//
SpatialVector
SpatialVector::operator +(const SpatialVector & v) const
{
  return SpatialVector(x_+v.x_, y_+v.y_, z_+v.z_);
}

/////////////OPERATOR -///////////////////////////////////
//
SpatialVector
SpatialVector::operator -(const SpatialVector & v) const
{
  return SpatialVector(x_-v.x_, y_-v.y_, z_-v.z_);
}

/////////////OPERATOR ^///////////////////////////////////
// cross product
//
SpatialVector
SpatialVector::operator ^(const SpatialVector &v) const
{
  return SpatialVector(y_ * v.z_ - v.y_ * z_,
		 z_ * v.x_ - v.z_ * x_,
		 x_ * v.y_ - v.x_ * y_);
}

/////////////OPERATOR ==//////////////////////////////////
//
int
SpatialVector::operator ==(const SpatialVector & v) const
{
  return ( (x_ == v.x_ && y_ == v.y_ && z_ == v.z_) ? 1 : 0 );
}

/////////////SHOW/////////////////////////////////////////
// print to stdout
//
void 
SpatialVector::show() const
{
  printf(" %11.8f %11.8f %11.8f \n",x_,y_,z_);
}

/////////////READ/////////////////////////////////////////
// print to stdout
//
void 
SpatialVector::read(std::istream &in)
{
  in.setf(std::ios::skipws);
  in >> x_ >> y_ >> z_;
  if(!in.good())
    throw SpatialFailure("SpatialVector:read: Could not read vector");
}

/////////////WRITE////////////////////////////////////////
// print to stdout
//
void 
SpatialVector::write(std::ostream &out) const
{
  out << x_ << ' ' << y_ << ' ' << z_ ;
}


