//#     Original Filename:       lookup.cpp
//#
//#     --------------------------------------------------------------------
//#     Hacked to be a used as a shared object library and just look up a 
//#     list of ra's and dec's.  Renamed to
//#           htmLookupRadec.cpp    14-DEC-2000 Erin Scott Sheldon UofMich
//#
//#     usage from idl:
//#     
//#     sofile = mypath + 'htmLookupRadec.so'
//#     entry = 'main'
//#     depth = ulong(9)                  ;type is important
//#     n=ulong( n_elements(ra) )         ;type is important
//#     indices = replicate(ulong(0), n)  ;type is important
//#     tmp = call_external(value=[0B,0B,0B,0B,0B], sofile,entry,$
//#                         ra, dec, depth, n, indices)
//#
//#     ;; the ra,dec must be double arrays
//#     ;; indices will return with the htm indices for each (ra,dec) pair.
//#
//#     --------------------------------------------------------------------
//#     Original Comments:
//#     specify a point on the sphere, return its ID/Name to a certain depth
//#
//#
//#     Author:         Peter Z. Kunszt
//#
//#     Date:           October 15, 1999
//#
//#
//#
//# (c) Copyright The Johns Hopkins University 1999
//# All Rights Reserved
//#
//# The software and information contained herein are proprietary to The
//# Johns Hopkins University, Copyright 1999.  This software is furnished
//# pursuant to a written license agreement and may be used, copied,
//# transmitted, and stored only in accordance with the terms of such
//# license and with the inclusion of the above copyright notice.  This
//# software and information or any other copies thereof may not be
//# provided or otherwise made available to any other person.
//#
//#
#include "SpatialVector.h"
#include "SpatialInterface.h"
#include "VarStr.h"
#include <stdlib.h>

/*******************************************************
 
  DESCRIPTION
 
  This example code demonstrates the lookup functionality of
  the SpatialIndex.
 
  It can be invoked by
 
  	lookup level x y z

	or

	lookup level ra dec

  where

     level     : the level depth to build the index (2 - 14)
     x,y,z     : define a point on the unit sphere (can be non-unit vector)
     ra,dec    : "

  it echoes the vector and returns its ID/Name for the given level.


Example 1: level 5, ra,dec = 10,25

%lookup 5 10 25

	(x,y,z) = 0.892539 0.157379 0.422618
	(ra,dec) = 10,25
	ID/Name = 16020 N322110 

Example 2: level 14, x,y,z = -1,2,-23  (output is normed version)

% lookup 14 -1 2 -23

	(x,y,z) = -0.0432742 0.0865485 -0.995307
	(ra,dec) = 116.565,-84.4471
	ID/Name = 2486622255 S110031231200233

*******************************************************/

int
main(int argc, char *argv[]) {

//*******************************************************
//
// Initialization
//
//*******************************************************

  bool quiet = false;		// debug flag
  size_t j, depth, n;
  uint32 *inputn, *inputdepth, *indices;
  float64 *ra, *dec, tmpra, tmpdec; //Changed to pointers E.S.S.
  htmInterface *htm;
  uint64 id;

  quiet = true;

  ///////////////////////////////////
  // set the input values E.S.S.
  ///////////////////////////////////

  ra = (float64 *) argv[0];
  dec = (float64 *) argv[1];
  inputdepth = (uint32 *) argv[2];
  depth = (size_t) *(&inputdepth[0]);   //convert to size_t so won't crash
  inputn = (uint32 *) argv[3];
  n = (size_t) *(&inputn[0]);           // so it won't crash

  indices = (uint32 *) argv[4]; // this will be filled with indices
                                // We will never use depth > 14, so only 
                                // need uint32. We can convert id from 
                                // uint64 to uint32 later.  E.S.S.

  try {

    if(!quiet)
      printf("Depth = %u\n",depth);

    // this command causes a "Program caused arithmetic error: Floating underflow" 
    // error statement when this program is called by IDL.
    htm = new htmInterface(depth);

// *******************************************************
//
// Lookup all the ra,dec positions
//
// ******************************************************

    j = n;


    for (j=0; j < n; ++j) {
      tmpra = *(&ra[0] + j);
      tmpdec = *(&dec[0] + j);
      id = htm->lookupID(tmpra,tmpdec);  // lookup id by ra dec
      *(&indices[0] + j) = (uint32)id;
    }

  } catch (SpatialException x) {
    printf("%s\n",x.what());
  }

  return 0;
}
