//#     Filename:       VarStr.hxx
//#
//#     VarStr class functions
//#
//#
//#     Author:         Peter Z Kunszt
//#     
//#     Date:           July 4 2000
//#
//#
//#
/* --- VarStr methods ------------------------------------------------------ */
#include <stdlib.h>
#include <iostream>
inline
char *	VarStr::data() const{
  return vector_;
}

inline
bool 	VarStr::empty() const {
  return ( length_ == 0 ? true : false );
}

/////////////<<///////////////////////////////////////////
// write to ostream
//
inline
std::ostream& operator <<( std::ostream& out, const VarStr & s) {
  return(  out << s.data() );
}


// binary mode string extension
   
inline VarStr& 
VarStr::operator *=( const uint8 num )
{
   append( ((unsigned char *)&num), sizeof(num) );
   return *this;
}

// extension operator for short int

inline VarStr& 
VarStr::operator *=( const int16 num )
{
   append( ((unsigned char *)&num), sizeof(num) );
   return *this;
}

// extension operator for unsigned short int

inline VarStr& 
VarStr::operator *=( const uint16 num )
{
   append( ((unsigned char *)&num), sizeof(num) );
   return *this;
}

// extension operator for integer

inline VarStr& 
VarStr::operator *=( const int32 num )
{
   append( ((unsigned char *)&num), sizeof(num) );
   return *this;
}

// extension operator for unsigned integer

inline VarStr& 
VarStr::operator *=( const uint32 num )
{
   append( ((unsigned char *)&num), sizeof(num) );
   return *this;
}

// extension operator for long int

inline VarStr& 
VarStr::operator *=( const int64 num )
{
   append( ((unsigned char *)&num), sizeof(num) );
   return *this;
}

// extension operator for unsigned long int

inline VarStr& 
VarStr::operator *=( const uint64 num )
{
   append( ((unsigned char *)&num), sizeof(num) );
   return *this;
}

// extension operator for float

inline VarStr& 
VarStr::operator *=( const float32 num )
{
   append( ((unsigned char *)&num), sizeof(num) );
   return *this;
}

// extension operator for double

inline VarStr& 
VarStr::operator *=( const float64 num )
{
   append( ((unsigned char *)&num), sizeof(num) );
   return *this;
}

// append method: efficiently insert element at end of array

inline size_t	
VarStr::append( unsigned char *pBuf, const int len )
{
#if !defined(SXBIGENDIAN)
  //   swapEndian( pBuf, len, 1 );
#endif
   for( size_t i = 0; i < size_t(len); i++ )
     (length_ < capacity_ ? vector_[length_++] : at(length_)) = pBuf[ i ];
   return length_;
}


inline void
VarStr::write( std::ostream& _out ) const {
  _out.write( vector_, length_ );
  _out.flush();
}

