//#     Filename:       instances.cpp
//#
//#     The instances needed for the SpatialMap package.
//#
//#     Author:         Peter Z. Kunszt
//#     
//#     Date:           October 23, 1998
//#
//#
//#
//# (c) Copyright The Johns Hopkins University 1998
//# All Rights Reserved
//#
//# The software and information contained herein are proprietary to The
//# Johns Hopkins University, Copyright 1998.  This software is furnished
//# pursuant to a written license agreement and may be used, copied,
//# transmitted, and stored only in accordance with the terms of such
//# license and with the inclusion of the above copyright notice.  This
//# software and information or any other copies thereof may not be
//# provided or otherwise made available to any other person.
//#
//#
//#     Modification History:
//#
#include <SpatialGeneral.h>
#include <SpatialInterface.h>
#include <SpatialConvex.h>

// In the SX environment this file is part of the sxGeneral library.
#ifndef SXDB
#include <VarStr.hpp>
#endif

#if defined(SpatialStandardTemplate)

// The sparc has a strange way of not explicitly defining the subclasses...
#if defined(SpatialSUN) && !defined(SpatialLinux)
template class ValVec<QuadNode>;
template class ValVec<Layer>;
#else
template class ValVec<SpatialIndex::QuadNode>;
template class ValVec<SpatialIndex::Layer>;
#endif

template class ValVec<BitList>;
template class ValVec<SpatialVector>;
template class ValVec<SpatialConstraint>;
template class ValVec<SpatialConvex>;
template class ValVec<int16>;
template class ValVec<int32>;
template class ValVec<uint8>;
#ifndef SXDB
template class ValVec<uint16>;
#endif
template class ValVec<uint32>;
template class ValVec<uint64>;
#ifdef SpatialDigitalUnix
template class ValVec<size_t>;
#endif
template class ValVec<htmRange>;
template class ValVec<htmPolyCorner>;

#elif defined(SpatialPragmaTemplateSGI)

#pragma instantiate ValVec<SpatialIndex::QuadNode>
#pragma instantiate ValVec<SpatialIndex::Layer>
#pragma instantiate ValVec<BitList>
#pragma instantiate ValVec<SpatialVector>
#pragma instantiate ValVec<SpatialConstraint>
#pragma instantiate ValVec<SpatialConvex>
#pragma instantiate ValVec<uint8>
#ifndef SXDB
#pragma instantiate ValVec<uint16>
#endif
#pragma instantiate ValVec<uint32>
#pragma instantiate ValVec<uint64>
#pragma instantiate ValVec<htmRange>
#pragma instantiate ValVec<htmPolyCorner>

#elif defined(SpatialWINTemplate)

#include <VarVecDef.h>

//template class LINKAGE ValVec<uint64>;
//template class LINKAGE ValVec<uint32>;
template class ValVec<uint64>;
template class ValVec<uint32>;

#endif
