#ifndef VARSTR_H
#define VARSTR_H
//#     Filename:       VarStr.h
//#
//#     Variable string class and tokenizer
//#
//#
//#     Author:         Peter Z Kunszt    
//#     
//#     Creation Date:  August 2000
//#
//#
//#
//#
//# Modification history:

#ifndef _BOUNDS_EXCEPTION

#ifdef SXDB
#   include <sxException.h>
#   define _BOUNDS_EXCEPTION sxBoundsError
#   define _INTERFACE_EXCEPTION sxInterfaceError
#else
#   include <SpatialException.h>
#   define _BOUNDS_EXCEPTION SpatialBoundsError
#   define _INTERFACE_EXCEPTION SpatialInterfaceError
#endif

#endif

#include <sys/types.h>
#include <stdio.h>
#include <iostream>

#include <stdlib.h>

/** Dynamic string.

    This is a template for a general-purpose dynamic string.  The
    array grows automatically as needed, but reallocation occurs only
    when the length exceeds the capacity.  The capacity is increased
    in large blocks, the size of which may be optimized.  The public
    data member, increment_, specifies the amount by which the
    capacity is increased during reallocation.  By default, increment_
    is zero, which causes the capacity to double upon each
    reallocation.  A non-zero increment_ is simply added to the
    capacity upon each reallocation.  The capacity is extended by this
    amount or by whatever greater amount is necessary to accommodate
    the new length of the array.
*/

//class LINKAGE VarStr {
class VarStr {
public:
  /** Destructor. */

  ~VarStr( void );

  /** Default constructor.
      optionally specify initial capacity and reallocation increment.
  */

  VarStr( size_t capacity = 0, size_t increment = 0 );

  /** Construct from a string */

  VarStr( const char * );

  /** Copy constructor.  
      The initial capacity is the current capacity of the duplicated array.*/

  VarStr( const VarStr& );

  /** Assignment/copy operator. does not decrease the capacity. */
  //@{
  VarStr&	operator =( const VarStr& );
  VarStr&	operator =( const char * );
  VarStr&	operator =( const char );
  VarStr&	operator =( const int );
  //@}

  /** Efficient array operator (const version): no bounds checking. */

  char		operator ()( size_t index ) const { return vector_[index]; }

  /** Efficient array operator (non-const version): no bounds checking. */

  char&	operator ()( size_t index ) { return vector_[index]; }

  /** Bounds-checking array operator (const version): throws sxBoundsError.*/

  char		operator []( size_t index ) const;

  /** Bounds-checking array operator (non-const version): throws sxBoundsError.
   */

  char&	operator []( size_t index );

  /** Comparison operators */
  //@{
  int          operator == ( const VarStr &) const;
  int          operator == ( const char *) const;
  int          operator != ( const VarStr &) const;
  int          operator != ( const char *) const;
  //@}

  /** String extension */
  //@{
  friend VarStr &          operator + ( const VarStr &, const VarStr &);
  friend VarStr &          operator + ( const VarStr &, const char * );
  friend VarStr &          operator + ( const char *, const VarStr & );
  //@}

  /** String extension */
  //@{
   VarStr &          operator += ( const VarStr &);
   VarStr &          operator += ( const char *);
   VarStr &          operator += ( const char );
   VarStr &          operator += ( const int );
  //@}

  /** Binary string extension, represented by operator "*=" */
  //@{
   VarStr &          operator *= ( const uint8 );
   VarStr &          operator *= ( const int16 );
   VarStr &          operator *= ( const uint16 );
   VarStr &          operator *= ( const int32 );
   VarStr &          operator *= ( const uint32 );
   VarStr &          operator *= ( const int64 );
   VarStr &          operator *= ( const uint64 );
   VarStr &          operator *= ( const float32 );
   VarStr &          operator *= ( const float64 );
  //@}

  /** Char conversion */
  operator char* () const { return vector_; }

  /** Bounds-adjusting array operator.  Returns the array
      element at the specified index, extending the array as necessary
      to bring it within bounds.  The fill value, if defined, is the
      initializer for any new elements. */

  char&	at( size_t index );

  /** Returns current occupied length of array */

  size_t	length( void ) const { return length_; }

  /** Append method. efficiently insert given element at end of array.
      Avoids redundant initialization of new array element, except for
      when a reallocation is required.  Returns the new length. */

  size_t	append( const char );

  /** Append method for binary data.  Adds the contents of the given 
      buffer to the string byte by byte. Returns the new length. */

  size_t	append( unsigned char *buf, const int len );

  /** Insert new array elements.  
      count specifies the number of new elements, and offset specifies
      where in the array to insert them.  By default the new elements
      are appended.  The fill value, if defined, is the initializer
      for the new elements.  offset refers to the end of the array:
      the first new element is located at index (length - offset).
      Returns the new length.  Throws sxBoundsError if offset is
      greater than length.*/

  size_t	insert( size_t count, size_t offset = 0, char c = ' ' );

  /** Remove array elements.
      count specifies the number of elements to remove, and offset
      specifies which elements to remove.  By default elements are
      removed from the end of the array.  The unused capacity grows by
      this amount.  offset refers to the end of the array: the first
      removed element is located at index (length - offset - count).
      Returns the new length.  Throws sxBoundsError if (offset+count)
      is greater than length. */

  size_t	cut( size_t count, size_t offset = 0 );

  /** Removes the element specified by offset.
      This is basically a wrapper for the cut method 
      <pre>
      cut(1, length-offset-1)
      </pre>
  */

  void		remove( size_t offset, size_t count = 1 );

  /** Write out the contents as a binary buffer.  Use the low-level stream
      write function.
  */

  void write( std::ostream& _out ) const;

  /** clear method */

  void		clear( void );

  /** return the string itself */
  char *	data() const;

  /** return true if string is empty, false if not */
  bool		empty() const;

private:
  size_t			increment_;     // linear growth increment
  char				*vector_;	// dynamic array of values
  size_t			length_;	// occupied length of vector
  size_t			capacity_;	// allocated length of vector

  friend class VarStrToken;
};


 VarStr &          operator + ( const VarStr &, const VarStr &);
 VarStr &          operator + ( const VarStr &, const char * );
 VarStr &          operator + ( const char *, const VarStr & );


/** Dynamic string tokenizer

    This class tokenizes the dynamic string VarStr. It returns the
    tokens one by one on request. It can also tokenize a standard
    string..
*/

class VarStrToken {
public:
  /** Constructor. Needs to get the VarStr that you want to tokenize*/

  VarStrToken( const VarStr & );

  // Construct from a standard string

  VarStrToken( const char * );

  /** Destructor. */

  ~VarStrToken( void );

  /** Get next token. You can optionally specify
      the characters that serve as delimiters. The default is whitespace. */
  const VarStr & next( const char * = NULL );

private:
  char * save_;
  char * str_;
  char * delimiters_;
  bool start_;
  VarStr token_;
};


//#     Filename:       VarStr.hxx
//#
//#     VarStr class functions
//#
//#
//#     Author:         Peter Z Kunszt
//#     
//#     Date:           July 4 2000
//#
//#
//#
/* --- VarStr methods ------------------------------------------------------ */

inline
char *	VarStr::data() const{
  return vector_;
}

inline
bool 	VarStr::empty() const {
  return ( length_ == 0 ? true : false );
}

/////////////<<///////////////////////////////////////////
// write to ostream
//
inline
std::ostream& operator <<( std::ostream& out, const VarStr & s) {
  return(  out << s.data() );
}


// binary mode string extension
   
inline VarStr& 
VarStr::operator *=( const uint8 num )
{
   append( ((unsigned char *)&num), sizeof(num) );
   return *this;
}

// extension operator for short int

inline VarStr& 
VarStr::operator *=( const int16 num )
{
   append( ((unsigned char *)&num), sizeof(num) );
   return *this;
}

// extension operator for unsigned short int

inline VarStr& 
VarStr::operator *=( const uint16 num )
{
   append( ((unsigned char *)&num), sizeof(num) );
   return *this;
}

// extension operator for integer

inline VarStr& 
VarStr::operator *=( const int32 num )
{
   append( ((unsigned char *)&num), sizeof(num) );
   return *this;
}

// extension operator for unsigned integer

inline VarStr& 
VarStr::operator *=( const uint32 num )
{
   append( ((unsigned char *)&num), sizeof(num) );
   return *this;
}

// extension operator for long int

inline VarStr& 
VarStr::operator *=( const int64 num )
{
   append( ((unsigned char *)&num), sizeof(num) );
   return *this;
}

// extension operator for unsigned long int

inline VarStr& 
VarStr::operator *=( const uint64 num )
{
   append( ((unsigned char *)&num), sizeof(num) );
   return *this;
}

// extension operator for float

inline VarStr& 
VarStr::operator *=( const float32 num )
{
   append( ((unsigned char *)&num), sizeof(num) );
   return *this;
}

// extension operator for double

inline VarStr& 
VarStr::operator *=( const float64 num )
{
   append( ((unsigned char *)&num), sizeof(num) );
   return *this;
}

// append method: efficiently insert element at end of array

inline size_t	
VarStr::append( unsigned char *pBuf, const int len )
{
#if !defined(SXBIGENDIAN)
  //   swapEndian( pBuf, len, 1 );
#endif
   for( size_t i = 0; i < size_t(len); i++ )
     (length_ < capacity_ ? vector_[length_++] : at(length_)) = pBuf[ i ];
   return length_;
}


inline void
VarStr::write( std::ostream& _out ) const {
  _out.write( vector_, length_ );
  _out.flush();
}

#endif /* VARSTR_H */
