//# SpatialException.h
//#
//# Author:    Peter Z Kunszt based on John Doug Reynolds'code
//# 
//# Creation:  March 1998
//#
//#
//# (c) Copyright The Johns Hopkins University 2000
//# All Rights Reserved
//#
//# The software and information contained herein are proprietary to The
//# Johns Hopkins University, Copyright 1995.  This software is furnished
//# pursuant to a written license agreement and may be used, copied,
//# transmitted, and stored only in accordance with the terms of such
//# license and with the inclusion of the above copyright notice.  This
//# software and information or any other copies thereof may not be
//# provided or otherwise made available to any other person.
//#
//#
//# Modification history:
//#


#ifndef _SpatialException_h
#define _SpatialException_h

#include "SpatialGeneral.h"

/** HTM SpatialIndex Exception base class
    This is the base class for all Science Archive exceptions.  It may
    be used as a generic exception, but programmers are encouraged to
    use the more specific derived classes.  Note that all Spatial
    exceptions are also Standard Library exceptions by
    inheritance.
*/

//class LINKAGE SpatialException {
class SpatialException {
public:
  /** Default and explicit constructor.  
      The default constructor
      supplies a generic message indicating the exception type.  The
      explicit constructor sets the message to a copy of the provided
      string.  This behavior is shared by all derived classes.
  */

  SpatialException( const char *what = 0, int defIndex = 1 ) throw();

  /** Standard constructor.  
      The message is assembled from copies of
      the two component strings.  The first indicates where in the
      program the exception was thrown, and the second indicates why.
      The null pointer is used to select standard components according
      to the type of the exception.  This behavior is shared by all
      derived classes.
  */
   SpatialException( const char *context, const char *because, 
		int defIndex = 1) throw();

  /// Copy constructor.
   SpatialException( const SpatialException& ) throw();

  /// Assignment operator.
   SpatialException& operator=( const SpatialException& ) throw();

  /// Destructor.
   virtual ~SpatialException() throw();

  /// Returns the message as set during construction.
   virtual const char *what() const throw();

  /// return string length also for null strings
   int slen(const char *) const;

  /// deallocate string
   void clear();

  /// default error string
   static const char *defaultstr[];

protected:
  /// error string to assemble
   char * str_;
};

/** SpatialException thrown by unimplemented functions.
    This Exception should be thrown wherever
    important functionality has been left temporarily unimplemented.
    Typically this exception will apply to an entire function.
*/

//class LINKAGE SpatialUnimplemented : public SpatialException {
class SpatialUnimplemented : public SpatialException {
public:
  /// Default and explicit constructors.
   SpatialUnimplemented( const char *what = 0 ) throw();

  /// Standard constructor.
   SpatialUnimplemented( const char *context, const char *because ) throw();

  /// Copy constructor.
   SpatialUnimplemented( const SpatialUnimplemented& ) throw();
};

/** SpatialException thrown on operational failure.
    This Exception should be thrown when an operation
    fails unexpectedly.  A special constructor is provided for
    assembling the message from the typical components: program
    context, operation name, resource name, and explanation.  As usual,
    any component may be left out by specifying the null pointer.
*/

//class LINKAGE SpatialFailure : public SpatialException {
class SpatialFailure : public SpatialException {
public:
   /// Default and explicit constructors.
   SpatialFailure( const char *what = 0 ) throw();

  /// Standard constructor.
   SpatialFailure( const char *context, const char *because ) throw();

  /// Special constructor.
   SpatialFailure( const char *context, const char *operation
	      , const char *resource, const char *because = 0 ) throw();

  /// Copy constructor.
   SpatialFailure( const SpatialFailure& ) throw();
};

/** SpatialException thrown on violation of array bounds.
    This Exception should be thrown on detection of an
    attempt to access elements beyond the boundaries of an array.  A
    special constructor is provided for assembling the message from the
    typical components: program context, array name, violated boundary,
    and violating index.
*/

//class LINKAGE SpatialBoundsError : public SpatialException {
class SpatialBoundsError : public SpatialException {
public:
  /// Default and explicit constructors.
   SpatialBoundsError( const char *what = 0 ) throw();

  /** Standard constructor.  
      If limit and index are -1, both are
      considered unknown.  Note that the upper limit of a zero-offset
      array is not the same as the number of elements.
  */
   SpatialBoundsError( const char *context
		  , const char *array, int32 limit =-1, int32 index=-1 ) throw();

   /// Copy constructor.
   SpatialBoundsError( const SpatialBoundsError& ) throw();
};

/** SpatialException thrown on violation of interface protocols.
    This Exception should be thrown when a program,
    class, or function interface requirement is breached.
    Specifically, this includes improper usage and invalid arguments.
    For the latter, a special constructor is provided for assembling
    the message from the typical components: program context, argument
    name, and explanation.
*/

//class LINKAGE SpatialInterfaceError : public SpatialException {
class SpatialInterfaceError : public SpatialException {
public:
  /// Default and explicit constructors.
   SpatialInterfaceError( const char *what = 0 ) throw();

  /// Standard constructor.
   SpatialInterfaceError( const char *context, const char *because ) throw();

  /// Special constructor.
   SpatialInterfaceError( const char *context
		     , const char *argument, const char *because ) throw();

  /// Copy constructor.
   SpatialInterfaceError( const SpatialInterfaceError& ) throw();
};

#endif /* _SpatialException_h */
