//#     Filename:       SpatialInterface.hxx
//#
//#     Interfaceion interface inline methods
//#
//#
//#     Author:         Peter Z. Kunszt, based on A. Szalay's code
//#     
//#     Date:           October 15, 1998
//#
//#
//#
//# (c) Copyright The Johns Hopkins University 1998
//# All Rights Reserved
//#
//# The software and information contained herein are proprietary to The
//# Johns Hopkins University, Copyright 1998.  This software is furnished
//# pursuant to a written license agreement and may be used, copied,
//# transmitted, and stored only in accordance with the terms of such
//# license and with the inclusion of the above copyright notice.  This
//# software and information or any other copies thereof may not be
//# provided or otherwise made available to any other person.
//#
//#

///////////LOOKUP METHODS////////////////////

inline
uint64 htmInterface::lookupID(float64 ra, float64 dec) const {
  return index_->idByPoint(ra,dec);
}

inline
uint64 htmInterface::lookupID(float64 x, float64 y, float64 z) const {
  SpatialVector v(x,y,z);
  return index_->idByPoint(v);
}

inline
uint64 htmInterface::lookupID(char *nm) const {
  return index_->idByName(nm);
}

inline
const char * htmInterface::lookupName(float64 ra, float64 dec) {
  index_->nameByPoint(ra,dec,name_);
  return name_;
}

inline
const char * htmInterface::lookupName(float64 x, float64 y, float64 z) {
  SpatialVector v(x,y,z);
  index_->nameByPoint(v,name_);
  return name_;
}

inline
const char * htmInterface::lookupName(uint64 id) {
  index_->nameById(id,name_);
  return name_;
}

//////////OTHERS/////////////////////////////

inline
void htmInterface::changeDepth(size_t depth, size_t saveDepth) {
  if(index_->maxlevel_ != depth || index_->buildlevel_ != saveDepth) {
    delete index_;
    index_ = new SpatialIndex(depth, saveDepth);
  }
}


inline
const SpatialIndex & htmInterface::index() const {
  return *index_;
}
