#ifndef _SpatialIndex_h
#define _SpatialIndex_h
//#     Filename:       SpatialIndex.h
//#
//#     SpatialIndex is the class for the the sky indexing routines.
//#
//#
//#     Author:         Peter Z. Kunszt, based on A. Szalay s code
//#
//#     Date:           October 15, 1998
//#
//#
//#
//# (c) Copyright The Johns Hopkins University 1998
//# All Rights Reserved
//#
//# The software and information contained herein are proprietary to The
//# Johns Hopkins University, Copyright 1998.  This software is furnished
//# pursuant to a written license agreement and may be used, copied,
//# transmitted, and stored only in accordance with the terms of such
//# license and with the inclusion of the above copyright notice.  This
//# software and information or any other copies thereof may not be
//# provided or otherwise made available to any other person.
//#
//#

#include <math.h>
#include <stdio.h>
#include <string.h>
#include <time.h>
#include <SpatialGeneral.h>
//#include <VarVecDef.h>
#include <VarVec.h>
#include <SpatialVector.h>
#include <SpatialEdge.h>
#include <SpatialException.h>


//########################################################################
//#
//# Spatial Index class 
//#


/**
   The Spatial Index is a quad tree of spherical triangles. The tree
   is built in the following way: Start out with 8 triangles on the
   sphere using the 3 main circles to determine them. Then, every
   triangle can be decomposed into 4 new triangles by drawing main
   circles between midpoints of its edges:

<pre>

.                            /\
.                           /  \
.                          /____\
.                         /\    /\
.                        /  \  /  \
.                       /____\/____\

</pre> 
   This is how the quad tree is built up to a certain level by
   decomposing every triangle again and again.
*/



//class LINKAGE SpatialIndex {
class SpatialIndex {
public:
  /** Constructor.
      Give the level of the index and optionally the level to build -
      i.e. the depth to keep in memory.  if maxlevel - buildlevel > 0
      , that many levels are generated on the fly each time the index
      is called. */
  SpatialIndex(size_t maxlevel, size_t buildlevel =2);

  /// NodeName conversion to integer ID
  static uint64 idByName(const char *);

  /** int32 conversion to a string (name of database).
      WARNING: if name is already allocated, a size of at least 17 is
      required.  The conversion is done by directly calculating the
      name from a number.  To calculate the name of a certain level,
      the mechanism is that the name is given by (#of nodes in that
      level) + (id of node).  So for example, for the first level,
      there are 8 nodes, and we get the names from numbers 8 through
      15 giving S0,S1,S2,S3,N0,N1,N2,N3.  The order is always
      ascending starting from S0000.. to N3333...  */
  static char * nameById(uint64 ID, char * name = 0);

  /** Return leaf number in bitlist for a certain ID.  Since the ID
      here means the number computed from the name, this is simply
      returning ID -leafCount().  Bitlists only work until level 14.*/
  uint32 leafNumberById(uint64 ID) const;

  /** Return leaf id for a certain bitlist index. 
      Same as the function above */
  uint64 idByLeafNumber(uint32 n) const ;

  /** return name for a certain leaf index (to be used for name lookup
      from a bitlist).  This function is simply shorthand for
      nameById(n + leafCount()).  */
  char * nameByLeafNumber(uint32 n, char * name = 0) const;

  /** find a node by giving a vector. 
      The ID of the node is returned. */
  uint64 idByPoint(SpatialVector & vector) const;

  /// find a node by giving a ra,dec in degrees.
  uint64 idByPoint(const float64 & ra, const float64 & dec) const;

  /// find a node by giving a vector. 
  /**@return The ID of the node is returned. */
  char* nameByPoint(SpatialVector & vector, char* s=NULL) const;

  /// find a node by giving a ra,dec in degrees.
  char* nameByPoint(const float64 & ra, const float64 & dec, 
		    char* s=NULL) const;

  /// return number of leaf nodes
  uint64 leafCount() const;

  /// return number of vertices
  size_t nVertices() const;

  /// The area in steradians for a given index ID
  float64 area(uint64 ID) const;

  /// The area in steradians for a given spatial triangle
  float64 area(const SpatialVector & v1, 
	       const SpatialVector & v2, 
	       const SpatialVector & v3) const;

  /// return the actual vertex vectors
  void nodeVertex(const uint64 id, 
     		  SpatialVector & v1, 
		  SpatialVector & v2, 
		  SpatialVector & v3) const; 

  /// return index of vertices for a node
  void nodeVertex(const size_t idx, 
		  size_t & v1, size_t & v2, size_t & v3) const; 

  /// print all vertices to output stream
  void showVertices(std::ostream & out) const;

private:

  // STRUCTURES

  struct Layer {
    size_t 	level_;		// layer level
    size_t 	nVert_;		// number of vertices in this layer
    size_t 	nNode_;		// number of nodes
    size_t 	nEdge_;		// number of edges
    uint64 	firstIndex_;	// index of first node of this layer
    size_t 	firstVertex_;	// index of first vertex of this layer
  };

  struct QuadNode {
    uint64	index_;		// its own index
    size_t	v_[3];		// The three vertex vector indices
    size_t	w_[3];		// The three middlepoint vector indices
    uint64	childID_[4];	// ids of children
    uint64	parent_;	// id of the parent node (needed for sorting)
    uint64	id_;		// numeric id -> name
  };

  // FUNCTIONS

  // insert a new node_[] into the list. The vertex indices are given by
  // v1,v2,v3 and the id of the node is set.
  uint64 newNode(size_t v1, size_t v2,size_t v3,uint64 id,uint64 parent);

  // make new nodes in a new layer.
  void makeNewLayer(size_t oldlayer);

  // return the total number of nodes and vertices
  void vMax(size_t *nodes, size_t *vertices);

  // sort the index so that the leaf nodes are at the beginning
  void sortIndex();

  // Test whether a vector v is inside a triangle v0,v1,v2. Input
  // triangle has to be sorted in a counter-clockwise direction.
  bool isInside(const SpatialVector & v, const SpatialVector & v0,
		const SpatialVector & v1, const SpatialVector & v2) const;

  // VARIABLES

  size_t 		maxlevel_;	// the depth of the Layer
  size_t 	        buildlevel_;	// the depth of the Layer stored
  uint64		leaves_;	// number of leaf nodes
  uint64		storedleaves_;	// number of stored leaf nodes
  ValVec<QuadNode> 	nodes_;		// the array of nodes
  ValVec<Layer> 	layers_;	// array of layers
  ValVec<SpatialVector>	vertices_;	// array of vertices
  uint64 		index_;		// the current index_ of vertices

  friend class SpatialEdge;
  friend class SpatialConvex;
  friend class SpatialDomain;
  friend class htmInterface;
};

#include "SpatialIndex.hxx"
#endif
