#ifndef _SpatialMarkup_h
#define _SpatialMarkup_h
//#     Filename:       SpatialMarkup.h
//#
//#     SpatialMarkup is the class for the the sky Markup routines.
//#
//#
//#     Author:         Peter Z. Kunszt, based on A. Szalay's code
//#     
//#     Date:           October 15, 1998
//#
//#
//#
//# (c) Copyright The Johns Hopkins University 1998
//# All Rights Reserved
//#
//# The software and information contained herein are proprietary to The
//# Johns Hopkins University, Copyright 1998.  This software is furnished
//# pursuant to a written license agreement and may be used, copied,
//# transmitted, and stored only in accordance with the terms of such
//# license and with the inclusion of the above copyright notice.  This
//# software and information or any other copies thereof may not be
//# provided or otherwise made available to any other person.
//#
//#

#include "SpatialIndex.h"

//########################################################################
//
// <GROUP>
// <SUMMARY>Class declarations</SUMMARY>
// 

//########################################################################
//
// <SUMMARY> Spatial Markup class </SUMMARY>
//

// The Spatial Markup just keeps track of the state of each node in the
// SkyIndex tree during an intersection with a domain.
//

class SpatialMarkup {
public:
  enum Markup {
    dONTKNOW,
    pARTIAL,
    sWALLOWED,
    fULL,
    rEJECT,
    bREJECT
  };

  // Constructor: specify index
  SpatialMarkup(const SpatialIndex &);

  // bracket operator: lvalue to set node markers at a specific index
  Markup & operator [](size_t nodeIndex);

  // parenthesis operator: lvalue to set vertex markers at a specific index
  uint8 & operator ()(size_t vIndex);

  // reset node markup to reject
  void clear();

  // reset vertex markup to undefined
  void clearVertex();

  // static values for vertex marker
  static uint8 vTrue, vFalse, vUndef;

private:
  const SpatialIndex & index;
  ValVec<Markup> mark_;		// Array of node markers
  ValVec<uint8> vmark_;		// Array of vertex markers (true, false, undef)

  friend class SpatialConvex;
  friend class SpatialConstraint;
  friend class SpatialDomain;
};
//==========================================================



#endif
