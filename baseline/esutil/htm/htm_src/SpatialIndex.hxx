//#     Filename:       SpatialIndex.hxx
//#
//#     H Implementations for spatialindex
//#
//#
//#     Author:         Peter Z. Kunszt, based on A. Szalay s code
//#
//#     Date:           October 15, 1998
//#
//#
//#
//# (c) Copyright The Johns Hopkins University 1998
//# All Rights Reserved
//#
//# The software and information contained herein are proprietary to The
//# Johns Hopkins University, Copyright 1998.  This software is furnished
//# pursuant to a written license agreement and may be used, copied,
//# transmitted, and stored only in accordance with the terms of such
//# license and with the inclusion of the above copyright notice.  This
//# software and information or any other copies thereof may not be
//# provided or otherwise made available to any other person.
//#
//#

/////////////leafCount//////////////////////////////////////
// leafCount: return number of leaf nodes
inline uint64
SpatialIndex::leafCount() const
{
  return leaves_;
}

/////////////NVERTICES////////////////////////////////////
// nVertices: return number of vertices
inline size_t
SpatialIndex::nVertices() const
{
  return vertices_.length();
}

//////////////////LEAFNUMBERBYID///////////////////////////////////////////
//
inline uint32
SpatialIndex::leafNumberById(uint64 id) const{
  if(maxlevel_ > HTMMAXBIT)
    throw SpatialInterfaceError("SpatialIndex:leafNumberById","BitList may only be used up to level HTMMAXBIT deep");

  return (uint32)(id - leafCount());
}

//////////////////IDBYLEAFNUMBER///////////////////////////////////////////
//
inline uint64
SpatialIndex::idByLeafNumber(uint32 n) const{
  uint64 l = leafCount();
  l += n;
  return l;
}

//////////////////NAMEBYLEAFNUMBER////////////////////////////////////////
//
inline char *
SpatialIndex::nameByLeafNumber(uint32 n, char * name) const{
  return nameById(idByLeafNumber(n), name);
}

//////////////////IDBYPOINT////////////////////////////////////////////////
// Find a leaf node where a ra/dec points to
//

inline uint64
SpatialIndex::idByPoint(const float64 & ra, const float64 & dec) const {
  SpatialVector v(ra,dec);
  return idByPoint(v);
}

//////////////////NAMEBYPOINT//////////////////////////////////////////////
// Find a leaf node where a ra/dec points to, return its name
//

inline char*
SpatialIndex::nameByPoint(const float64 & ra, const float64 & dec, 
			  char* name) const {
  return nameById(idByPoint(ra,dec), name);
}

//////////////////NAMEBYPOINT//////////////////////////////////////////////
// Find a leaf node where v points to, return its name
//

inline char*
SpatialIndex::nameByPoint(SpatialVector & vector, char* name) const {
  return nameById(idByPoint(vector),name);
}
