//#     Filename:       BitList.cpp
//#
//#     Member function definitions for classes associated with the BitList.
//#     Classes defined here are:
//#
//#		BitList	  - Bit array class
//#     	BitListIterator - Iterator through Bit Array
//#
//#     Author:         Peter Z. Kunszt
//#     
//#     Date:           June 4, 1998
//#
//#
//#
//# (c) Copyright The Johns Hopkins University 1998
//# All Rights Reserved
//#
//# The software and information contained herein are proprietary to The
//# Johns Hopkins University, Copyright 1998.  This software is furnished
//# pursuant to a written license agreement and may be used, copied,
//# transmitted, and stored only in accordance with the terms of such
//# license and with the inclusion of the above copyright notice.  This
//# software and information or any other copies thereof may not be
//# provided or otherwise made available to any other person.
//#
//#
//#     Modification History:
//#
//#     June 18, 1998 : pzk -- added compress/decompress methods
//#     June 29, 1998 : pzk -- added copy constructor/assignment to iterator

#ifdef SXDB
#include <sxGeneral.h>
#else
#include <SpatialGeneral.h>
#endif
#include <BitList.h>

// just the correct number one, static to this file and lower 4 bits of byte
static const uint32 one  = 1;
static const uint8  one8 = 1;
static const uint8 lhalf = 15;

#define ZEROS 0
#define ONES 0xffffffff;

// ===========================================================================
//
// Member functions for class BitList
//
// ===========================================================================

//////////////////CONSTRUCTOR//////////////////////////////////////////////
// default constructor with size and increment options
BitList::BitList (size_t size, size_t inc)
  : bits_(0,0,inc), size_(size) {
  if (size_ > 0) {
    bits_.at(size_ >> 5);  // divide by 32: we have int32s in the array
  }
}

// copy constructor
BitList::BitList ( const BitList & BL)
  : size_(BL.size_) {
  *this = BL;
}

//////////////////ASSIGNMENT///////////////////////////////////////////////
BitList &
BitList::operator = (const BitList & BL) {
  if (this != &BL) { // beware of self-assignment
    size_ = BL.size_;
    bits_.cut(bits_.length());        // clear this list
    bits_ = BL.bits_;                 // copy list
  }

  return *this;
}

//////////////////SET//////////////////////////////////////////////////////
// Set bit at index to val
void
BitList::set(size_t index, bool val) {
  size_t WordIndex = index >> 5;  // set WordIndex since it's used a lot

  // Extend ValVec if out of bounds and set bit or
  // Set or unset bit otherwise.
  if (WordIndex >= bits_.length()) {
    bits_.at(WordIndex);
    if(val)bits_(WordIndex) = one << (index & 31);
    size_ = index + 1;
  } else {
    if (val) {
      bits_(WordIndex) = bits_(WordIndex) | (one << (index & 31));
    } else {
      bits_(WordIndex) = bits_(WordIndex) & (~(one << (index & 31)));
    }
    if (index >= size_) size_ = index + 1;
  }
}

//////////////////[]///////////////////////////////////////////////////////
//
// Get bit at index. Throw an exception if out of bounds.
//
bool
BitList::operator [](size_t index) const {
  if(index >= size_)
    return false;

  return ( bits_(index >> 5) & (one << (index & 31)) ) ? true : false;
}

//////////////////SIZE/////////////////////////////////////////////////////
// Return size in bits
size_t
BitList::size() const {
  return size_;
}

//////////////////COUNT////////////////////////////////////////////////////
// Return number of set bits
size_t
BitList::count() const {
  size_t c = 0;
  uint32 word;
  for(size_t w = 0; w < bits_.length() ; w++) {
    word = bits_(w);
    for(size_t i = 0; i < 32 ; i++)
      c += (word >> i) & one;
  }
  return c;
}

//////////////////CHOPLITTER_//////////////////////////////////////////////
// Chop off trailing litter on the bitlist: mask those bits off
// the last uint32 which are past the size_
void
BitList::choplitter_() {
  if (size_ == 0) return;

  uint32 word = 0;
  for ( size_t i = 0 ; i < (size_ & 31); i++)
    word += one << i ;
  if (word > 0)
    bits_(size_ >> 5) = bits_(size_ >> 5) & word;
  else {
    if( bits_.length() > (size_ >> 5) )
      bits_(size_ >> 5) = 0;
  }
}

//////////////////TRIM/////////////////////////////////////////////////////
// Chop off trailing 'false' bits, return new size.
size_t
BitList::trim() {
  BitListIterator Iter(*this);
  size_t index;

  if (Iter.prev(true,index)) {     // a true bit has been found
    if (index < size_ - 1) {       // last bit is false, trim
      bits_.cut( bits_.length() - ( (index >> 5) +1) );
      size_ = index + 1;
    }
  } else clear();                  // all bits are false

  choplitter_();
  return size_;
}

//////////////////CLEAR////////////////////////////////////////////////////
// Reset size to 0, free up storage
void
BitList::clear(bool keepLength) {
  bits_.cut(bits_.length());
  if(keepLength) {
    bits_.at((size_-1) >> 5);  // reset the bits_ size, init to 0.
  } else {
    size_ = 0;
  }
}

//////////////////&=///////////////////////////////////////////////////////
// The bitwise &= operator, may be used to mask the current instance.
// Does not change the size.
BitList &
BitList::operator &= (const BitList & BL) {
  if (this == &BL) return *this;

  size_t len = bits_.length();
  if ( size_ > BL.size_)
    len = BL.bits_.length();

  if (size_ * BL.size_ > 0)            // check for zero-length BitList
    for (size_t i = 0; i < len; i++)
      bits_(i) &= BL.bits_(i);

  // if size of current exceeds size of mask, set the rest to zero.
  if (size_ > 0)
    for (size_t i = len; i < bits_.length(); i++)
      bits_(i) = 0;

  return *this;
}

//////////////////|=///////////////////////////////////////////////////////
// The bitwise |= operator, may be used to set bits in the current instance.
// expands instance if needed
BitList &
BitList::operator |= (const BitList & BL) {
  if (this == &BL) return *this;

  if ( size_ < BL.size_){                  // expand if mask longer
    bits_.at(BL.bits_.length() - 1);
    size_ = BL.size_;
  }

  if (BL.size_ > 0)                       // don't do anything if BL has 0 size
    for (size_t i = 0; i < BL.bits_.length(); i++)
      bits_(i) |= BL.bits_(i);

  choplitter_();
  return *this;
}

//////////////////^=///////////////////////////////////////////////////////
// The bitwise ^= operator, may be used to set bits in the current instance.
// expands instance if needed. Xor with itself sets all bits to zero.
BitList &
BitList::operator ^= (const BitList & BL) {
  if (this == &BL) {
    for (size_t j = 0; j < bits_.length(); j++)
      bits_(j) = 0;    
    return *this;
  }

  if ( size_ < BL.size_){                  // expand if mask longer
    bits_.at(BL.bits_.length() - 1);
    size_ = BL.size_;
  }

  if (BL.size_ > 0)                       // don't do anything if BL has 0 size
    for (size_t i = 0; i < BL.bits_.length(); i++)
      bits_(i) ^= BL.bits_(i);

  choplitter_();
  return *this;
}

//////////////////INVERT///////////////////////////////////////////////////
// The inversion method; flip every bit
void
BitList::invert() {
  if(bits_.length() > 0)
    for ( size_t i = 0; i< bits_.length(); i++)
      bits_(i) = ~ bits_(i);
  choplitter_();
}

//////////////////OVERLAPS/////////////////////////////////////////////////
// Test if the current instance has at least one overlapping bit with BL
bool
BitList::overlaps(const BitList & BL) const {

  BitListIterator iter(*this);
  size_t index;

  while(iter.next(true,index))
    if(BL[index])return true;
  return false;
}

//////////////////COVERS///////////////////////////////////////////////////
// Test if the current instance is a subset of BL
bool
BitList::covers(const BitList & BL) const {

  BitListIterator iter(BL);
  size_t index;

  while(iter.next(true,index))
    if(!(*this)[index])return false;
  return true;
}

//////////////////AND//////////////////////////////////////////////////////
//
// The bitwise & operator. If one of the arrays is larger than the other,
// the size of the returned array matches the size of the shorter array.
// (the nonexistent elements are taken as 0
//
/*BitList &
and (BitList & _res, const BitList & BL1 ,const BitList & BL2) {

  size_t len = BL1.bits_.length();
  _res.size_ = BL1.size_;
  if (BL1.size_ > BL2.size_) {
    len = BL2.bits_.length();
    _res.size_ = BL2.size_;
  }

  if (len > 0) {
    // adjust length of result to the length of the shorter array
    _res.bits_.at(len - 1);
    _res.bits_.cut(_res.bits_.length() - len);

    // AND all words up to index len
    for (size_t i = 0; i < len; i++)
      _res.bits_(i) = BL1.bits_(i) & BL2.bits_(i);
  } else { 
    // for zero length, return a zero result.
    _res.bits_.cut(_res.bits_.length());
  }
  _res.choplitter_();
  return _res;
}
*/
//////////////////OR///////////////////////////////////////////////////////
//
// The bitwise | operator. At nonequal sizes, the longer size is returned.
// Again, nonexistent elements are treated as 0.
//
/*
BitList &
or (BitList & _res, const BitList & BL1 ,const BitList & BL2) {


  // determine the length of the shorter of the two (store it in len)
  // Extend the result to size of first parm if BL is the shorter one.
  // if we were unlucky to initialize to the shorter parameter,
  // copy the remaining words of the longer parameter into the result

  _res = BL1;
  size_t len = BL2.bits_.length();

  if (BL1.size_ < BL2.size_) {
    _res = BL2;
    len = BL1.bits_.length();
  }

  // OR all words up to index len
  if (len > 0)
    for ( size_t i = 0; i < len; i++)
      _res.bits_(i) = BL1.bits_(i) | BL2.bits_(i);

  _res.choplitter_();
  return _res;
}
*/
//////////////////XOR//////////////////////////////////////////////////////
/*
BitList &
xor (BitList & _res, const BitList & BL1 ,const BitList & BL2) {


  // determine the length of the shorter of the two (store it in len)
  // Extend the result to size of first parm if BL is the shorter one.
  // if we were unlucky to initialize to the shorter parameter,
  // copy the remaining words of the longer parameter into the result

  _res = BL1;
  size_t len = BL2.bits_.length();

  if (BL1.size_ < BL2.size_) {
    _res = BL2;
    len = BL1.bits_.length();
  }

  // XOR all words up to index len
  if (len > 0)
    for ( size_t i = 0; i < len; i++)
      _res.bits_(i) = BL1.bits_(i) ^ BL2.bits_(i);

  _res.choplitter_();
  return _res;
}
*/
//////////////////NOT//////////////////////////////////////////////////////
//
// Not operator. Set the result to the same length as the current instance
// Copy each element with a bitwise not.
//
/*
BitList &
not (BitList & _res, const BitList & BL) {
  _res.bits_.cut(_res.bits_.length());     // clear this list
  _res.size_ = BL.size_;

  // NOT all words of BL
  if ( _res.size_ > 0) {
    _res.bits_.at(BL.bits_.length() - 1);   // set to same length as BL
    for (size_t i=0; i < BL.bits_.length(); i++)
      _res.bits_(i) = ~ BL.bits_(i);
  }
  _res.choplitter_();
  return _res;
}
*/
//////////////////COMPRESS_////////////////////////////////////////////////
// The compress utility makes a simple compression of the BitList, based
// on the PCX compression scheme.
//
// We do a byte-encoding, and write those bytes out in hex form (2 letters
// for each byte).
//
// The first bit (128) of each byte denotes whether the byte contains
// actual data or a count of bits. 
//
// If the first bit is 0, the next 7 bits are data-bits.
// If the first bit is 1, the next bit (64) is the value and the
// 6 last bits give the count (0-63). It does not make sense to
// count 0 times so bits are only counted if there are at least 8 bits
// with the same value. So the count is 8-71. For more than 71 bits,
// the next byte is taken.
//
// The byte is then written out to the stream as a hex number.
//
// This compression results in a 14% blowup in size for the worst case
// (i.e. BitList consists of 01010101...) and in a compression factor
// of 71 for the best case (all bits alike).
// Example: a series of 0101's of size 92 compresses into
//
//       2A552A552A552A552A552A552A.101
//
//          a series of 1111's of size 92 compresses into
//
//       FFCD.0
//
// The dot and the value following it indicates how many bits are in the
// last byte, if any, and then the last bytes follows in hex. In the above
// example, .101 means only a single bit=true. In this way the exact
// size of the BitList can be restored, not just chunks of 7.
//

void
BitList::compress(std::ostream & out) const {

  BitListIterator iter(*this);
  bool bit, obit, flag = false;
  int b=0;
  uint8 byte = 0;

  if(iter.next(obit)){   // get first bit into obit
    byte = int(obit);    // set byte's last bit to obit
  } else b = -1;         // BitList is empty.

  while (iter.next(bit)) {  // loop over every bit in the BitList
    b++;
    if(bit != obit && b > 0)flag = true;
    if(b < 7){
      if(bit) byte += (one8 << b);
    } else if (b == 7) {
      if(flag){
	out << char( (byte >> 4) + 48 ); // always digit 0-7, since first bit=0
	out << char( ((byte & lhalf) > 9) ? ((byte & lhalf) + 55)    // letter
		                          : ((byte & lhalf) + 48) ); // digit
	b = 0;
	flag = false;
	byte = int(bit);
      }
    } else if (b == 71){ // reached maximal count
      out << char(66 + 4 * int(obit)); // either B or F, depending on bit value
      out << 'F';                      // always F
      b = 0;
      flag = false;
      byte = int(bit);
    } else {
      if(flag){
	byte = 128 + 64 * int(obit) + b - 8;
	out << char( ((byte >> 4) > 9) ? ((byte >> 4) + 55)    // letter
	                               : ((byte >> 4) + 48) ); // digit
	out << char( ((byte & lhalf) > 9) ? ((byte & lhalf) + 55)
		                       : ((byte & lhalf) + 48) );
	b = 0;
	flag = false;
	byte = int(bit);
      }
    }
    obit = bit;
  }
  if(b<=7) {
    out << '.' << b+1 ; // indicate the bit count in last byte
    if(b > -1) { // last byte.
      out << char( (byte >> 4) + 48 ); // always digit 0-7, since first bit=0
      out << char( ((byte & lhalf) > 9) ? ((byte & lhalf) + 55)    // letter
		                        : ((byte & lhalf) + 48) ); // digit
    } else {
      out << '0';
    }
  } else {
    byte = 128 + 64 * int(obit) + b - 7;
    out << char( ((byte >> 4) > 9) ? ((byte >> 4) + 55)    // letter
	                           : ((byte >> 4) + 48) ); // digit
    out << char( ((byte & lhalf) > 9) ? ((byte & lhalf) + 55)
	                              : ((byte & lhalf) + 48) );
    out << '.' << '0';
  }
  out << "\n";
}

//////////////////DECOMPRESS_//////////////////////////////////////////////
// The decompress utility reads in a compressed BitList from a stream and
// fills in the bits in the real BitList. See compress_ for details.
//
void
BitList::decompress(std::istream & in) {

  char c1, c2;
  int count, idx=0;
  int8 byte;
  bool bit;

  clear();
  in >> c1;
  while(c1 != '.') {
    in >> c2;
    if (c1 > '7') { // count - byte
      count = ( (c1>'9') ? ((int(c1-'7') & 3) << 4) :
		           ((int(c1-'0') & 3) << 4) ) + 
	   int( (c2>'9') ? (c2-'7') : 
                           (c2-'0') ) + 8 ;
	  bit = (int(c1-'7') & 4) ? true : false	;
      if(bit) {
	for (int i = 0; i < count; i++)
	  set(idx++,bit);
      } else {
	idx += count-1;
	set(idx++,bit);
      }
    } else {  // data - byte
      byte = (int(c1-'0') << 4) + int(( (c2>'9') ? (c2-'7') : (c2-'0')));
      for (int i = 0; i < 7; i++) 
		  set(idx++,(byte & (one8 << i)) ? true : false);
    }
    in >> c1;
  }
  in >> c1;
  count = int(c1-'0');
  if(count) {
    in >> c1;
    in >> c2;
    byte = (int(c1-'0') << 4) + int(( (c2>'9') ? (c2-'7') : (c2-'0')));
    for (int i = 0; i < count; i++)
		set(idx++,(byte & (one8 << i)) ? true : false);
  }
}

// ===========================================================================
//
// Member functions for class BitListIterator
//
// ===========================================================================

//////////////////CONSTRUCTOR//////////////////////////////////////////////
// default constructor: empty bitlistiterator
//
BitListIterator::BitListIterator()
  : bitlist(0)
{
}
//////////////////CONSTRUCTOR//////////////////////////////////////////////
// Construct from a bitlist. Set the current index to the out-of-bounds
// index = size_.
//
BitListIterator::BitListIterator(const BitList & BL)
  : bitlist(& BL)
{
  setindex(bitlist->size_);
}

//////////////////CONSTRUCTOR//////////////////////////////////////////////
// Construct from a bitlist and set starting index.
BitListIterator::BitListIterator(const BitList & BL, size_t start)
  : bitlist(& BL)
{
  setindex(start);
}

//////////////////COPY CONSTRUCTOR/////////////////////////////////////////
// Copy construct
BitListIterator::BitListIterator(const BitListIterator & iter)
{
  bitlist    = iter.bitlist;
  word_      = iter.word_;
  wordIndex_ = iter.wordIndex_;
  bitIndex_  = iter.bitIndex_;
}

//////////////////ASSIGNMENT///////////////////////////////////////////////
// Assignment
BitListIterator &
BitListIterator::operator = (const BitListIterator & iter)
{
  bitlist    = iter.bitlist;
  word_      = iter.word_;
  wordIndex_ = iter.wordIndex_;
  bitIndex_  = iter.bitIndex_;

  return *this;
}

//////////////////SETINDEX/////////////////////////////////////////////////
// Initialize the internal counters to a certain starting point
void
BitListIterator::setindex(size_t start) {
  if (bitlist == 0) 
    throw _BOUNDS_EXCEPTION("BitListIterator:"," not initialized");
  // the next next() returns first bit if start = bitlist.size_
  if (start >= bitlist->size_) start = bitlist->size_;

  wordIndex_ = start >> 5;
  bitIndex_ = start & 31;
  if(bitlist->size_ > 0 && start < bitlist->size_)
    word_ = bitlist->bits_.vector_[wordIndex_];
}

//////////////////NEXT(BOOL, SIZE_T &)/////////////////////////////////////
// get the index of the next 'true' or 'false' bit (indicated by the first 
// argument)
bool
BitListIterator::next(bool bit, size_t & _index) {
  if (bitlist == 0) 
    throw _BOUNDS_EXCEPTION("BitListIterator:"," not initialized");

  /*
  if(bitlist->size_==0)return false;
  uint32 val;
  if(bit)val = ZEROS;
  else val = ONES;
  if( bitlist->bits_.vector_[wordIndex_] == val ) {
    while(wordIndex_ < bitlist->length() && 
	  bitlist->bits_.vector_[wordIndex_] == val) wordIndex_++;
    wordIndex_--;
    bitIndex_ = 31;
  }
  */

  while (incr()) {  // increment pointer, check for boundary
    // If the bit is on, return the index value and set the pointer
    // to the next bit.
	  if( ((word_ & (one << bitIndex_)) ? true : false) == bit) {
      _index = ((wordIndex_ << 5) + bitIndex_);
      return true;
    }
  } 
  return false;
}

//////////////////NEXT(BOOL &)/////////////////////////////////////////////
// get the next bit into bit and increment the internal index
bool
BitListIterator::next(bool & _bit) {
  if (bitlist == 0) 
    throw _BOUNDS_EXCEPTION("BitListIterator:"," not initialized");

  if(incr()) {  // increment pointer, check for boundary
	  _bit = (word_ & (one << bitIndex_)) ? true : false; // get current bit
    return true;
  }
  return false;
}

//////////////////PREV(BOOL, SIZE_T &)/////////////////////////////////////
// get the index of the previous 'true' or 'false' bit (indicated by the first 
// argument)
bool
BitListIterator::prev(bool bit, size_t & _index) {
  if (bitlist == 0) 
    throw _BOUNDS_EXCEPTION("BitListIterator:"," not initialized");

  while (decr()) {

      // If the bit is on, return the index value and set the pointer
      // to the next bit.
	  if( ((word_ & (one << bitIndex_)) ? true : false) == bit) {
      _index = ((wordIndex_ << 5) + bitIndex_);
      return true;
    }
  }
  return false;
}


//////////////////PREV(BOOL &)/////////////////////////////////////////////
// get the previous bit into bit and decrement the internal index
bool
BitListIterator::prev(bool & _bit) {
  if (bitlist == 0) 
    throw _BOUNDS_EXCEPTION("BitListIterator:"," not initialized");

  if(decr()) {
	  _bit = (word_ & (one << bitIndex_)) ? true : false;
    return true;
  }
  return false;

}

//////////////////INCR////////////////////////////////////////////////////
// private function incrementing the pointer and returning
// true or false if it is within bounds or not
bool
BitListIterator::incr() {
  if (bitlist == 0) 
    throw _BOUNDS_EXCEPTION("BitListIterator:"," not initialized");
  if ( ((wordIndex_ << 5) + bitIndex_) == bitlist->size_ ) {
    if (bitlist->size_ == 0) return false;      // check for 0-length array
    bitIndex_ = 0;
    wordIndex_ = 0;
    word_ = bitlist->bits_(0);
    return true;
  } else {
    if(++bitIndex_ == 32) {        // check if next word is needed
      bitIndex_ = 0;
      if ( ((++wordIndex_ << 5) + bitIndex_) == bitlist->size_ )
	return false;
      word_ = bitlist->bits_.vector_[wordIndex_];
      return true;
    }
    return bool( ((wordIndex_ << 5) + bitIndex_) != bitlist->size_ );
  }
}

//////////////////DECR////////////////////////////////////////////////////
// private function decrementing the pointer returning true or
// false if it is within bounds or not
bool
BitListIterator::decr() {
  if (bitlist == 0) 
    throw _BOUNDS_EXCEPTION("BitListIterator:"," not initialized");

  if (wordIndex_ + bitIndex_ == 0) {
    wordIndex_ = bitlist->size_ >> 5;
    bitIndex_ = bitlist->size_ & 31;
    return false;
  } else {
    if(bitIndex_ == 0) {
      bitIndex_ = 32;
      word_ = bitlist->bits_.vector_[--wordIndex_];
    }
    if ( ((wordIndex_ << 5) + bitIndex_) == bitlist->size_ )
      word_ = bitlist->bits_(wordIndex_);
    bitIndex_--;
    return true;
  }

}
