//#     Filename:       SpatialDomain.cpp
//#
//#     The SpatialDomain
//#     classes are defined here.
//#
//#     Author:         Peter Z. Kunszt based on A. Szalay's code
//#     
//#     Date:           October 23, 1998
//#
//#
//#
//# (c) Copyright The Johns Hopkins University 1998
//# All Rights Reserved
//#
//# The software and information contained herein are proprietary to The
//# Johns Hopkins University, Copyright 1998.  This software is furnished
//# pursuant to a written license agreement and may be used, copied,
//# transmitted, and stored only in accordance with the terms of such
//# license and with the inclusion of the above copyright notice.  This
//# software and information or any other copies thereof may not be
//# provided or otherwise made available to any other person.
//#
//#
//#     Modification History:
//#
#include "SpatialDomain.h"
#include "SpatialException.h"

#define COMMENT '#'
// ===========================================================================
//
// Member functions for class SpatialDomain
//
// ===========================================================================

/////////////CONSTRUCTOR//////////////////////////////////
//
// Initialize
//
SpatialDomain::SpatialDomain(const SpatialIndex * i) :
  index(i) {
}

/////////////DESTRUCTOR///////////////////////////////////
//
SpatialDomain::~SpatialDomain()
{
}

/////////////SETINDEX/////////////////////////////////////
//
void
SpatialDomain::setIndex(const SpatialIndex * idx)
{
  index = idx;
}

/////////////ADD//////////////////////////////////////////
//
void
SpatialDomain::add(SpatialConvex & c)
{
  convexes_.append(c);
}


/////////////INTERSECT////////////////////////////////////
//
bool
SpatialDomain::intersect(const SpatialIndex * idx, 
			 BitList & partial, BitList & full) {
  index = idx;

  if ( idx->maxlevel_ > 10 )
    throw SpatialException("Intersection with Bitlists more than 10 levels deep is impractical.");
  size_t i;
  // initialize empty lists
  full.clear(); partial.clear();
  full.trim();  partial.trim();
  full.set((uint32)index->leafCount()-1, false);
  partial.set((uint32)index->leafCount()-1, false);

  for(i = 0; i < convexes_.length(); i++)  // intersect every convex
    convexes_[i].intersect(index, &partial, &full);

  return true;
}

/////////////INTERSECT////////////////////////////////////
//
bool
SpatialDomain::intersect(const SpatialIndex * idx, 
			 ValVec<uint64> & partial, ValVec<uint64> & full) {
  index = idx;

  size_t i;
  // initialize empty lists
  full.cut(full.length());
  partial.cut(partial.length());

  for(i = 0; i < convexes_.length(); i++)  // intersect every convex
    convexes_[i].intersect(index, &partial, &full);

  partial.sort(compUint64);
  full.sort(compUint64);
  return true;
}

/////////////INTERSECT////////////////////////////////////
//
bool
SpatialDomain::intersect(const SpatialIndex * idx, 
			 ValVec<uint64> & idList) {
  index = idx;

  size_t i;
  // initialize empty lists
  idList.cut(idList.length());

  for(i = 0; i < convexes_.length(); i++)  // intersect every convex
    convexes_[i].intersect(index, &idList);

  topBit_ = 1;
  size_t n = (index->maxlevel_+2) * 2 - 1 ;
  topBit_ = topBit_ << n;
  idList.sort(compRange);
  return true;
}

void
SpatialDomain::ignoreCrLf(std::istream &in) {
  char c = in.peek();
  while (c == 10 || c == 13) {
    in.ignore();
    c = in.peek();
  }
}
/////////////READ/////////////////////////////////////////
//
void
SpatialDomain::read(std::istream &in) {
  size_t nconv;
  char comstr[20];

  while(in.peek() == COMMENT)  // ignore comments
      in.ignore(10000,'\n');
  in >> nconv; 
  ignoreCrLf(in);
  for(size_t i = 0; i < nconv; i++) {

    if(in.peek() == COMMENT) // here comes a command
      in >> comstr;

    if(strcmp(comstr,"#TRIANGLE")==0) {
      SpatialVector v1,v2,v3;
      in >> v1;
      in >> v2;
      in >> v3;
      SpatialConvex cvx(&v1,&v2,&v3);
      add(cvx);
      ignoreCrLf(in);
    } else if(strcmp(comstr,"#RECTANGLE")==0) {
      SpatialVector v1,v2,v3,v4;
      in >> v1;
      in >> v2;
      in >> v3;
      in >> v4;
      SpatialConvex cvx(&v1,&v2,&v3,&v4);
      add(cvx);
      ignoreCrLf(in);
    } else if(strcmp(comstr,"#TRIANGLE_RADEC")==0) {
      float64 ra1,ra2,ra3;
      float64 dec1,dec2,dec3;
      in >> ra1 >> dec1;
      in >> ra2 >> dec2;
      in >> ra3 >> dec3;
      SpatialVector v1(ra1,dec1);
      SpatialVector v2(ra2,dec2);
      SpatialVector v3(ra3,dec3);
      SpatialConvex cvx(&v1,&v2,&v3);
      add(cvx);
      ignoreCrLf(in);
    } else if(strcmp(comstr,"#RECTANGLE_RADEC")==0) {
      float64 ra1,ra2,ra3,ra4;
      float64 dec1,dec2,dec3,dec4;
      in >> ra1 >> dec1;
      in >> ra2 >> dec2;
      in >> ra3 >> dec3;
      in >> ra4 >> dec4;
      SpatialVector v1(ra1,dec1);
      SpatialVector v2(ra2,dec2);
      SpatialVector v3(ra3,dec3);
      SpatialVector v4(ra4,dec4);
      SpatialConvex cvx(&v1,&v2,&v3,&v4);
      add(cvx);
      ignoreCrLf(in);
    } else  if(strcmp(comstr,"#CONVEX_RADEC")==0) {
      SpatialConvex conv;
      conv.readRaDec(in);
      add(conv);
    } else {
      SpatialConvex conv;
      in >> conv;
      add(conv);
    }
    comstr[0] = 0;
  }
}

/////////////set ra,dec E.S.S./////////////////////////////////////////
//

void
SpatialDomain::setRaDecD(float64 ra, float64 dec, float64 d) {

  SpatialConvex conv;
  conv.setRaDecD(ra, dec, d);
  add(conv);
}

/////////////Write////////////////////////////////////////
//
void
SpatialDomain::write(std::ostream &out) const {
  out << "#DOMAIN" << "\n";
  out << convexes_.length() << "\n";
  for (size_t i = 0; i < convexes_.length() ; i++)
    out << convexes_[i];
}

/////////////COMPUINT64///////////////////////////////////
// compare ids
//
int 
compUint64(const void* v1, const void* v2) {
  return (  ( *((uint64 *)v1) < *((uint64 *)v2) ) ? -1 :
	    ( ( *((uint64 *)v1) > *((uint64 *)v2) ) ? 1 : 0 ) );
}

/////////////COMPRANGE///////////////////////////////////
// compare ids
//
int 
compRange(const void* v1, const void* v2) {
  uint64 a = *((uint64 *)v1);
  uint64 b = *((uint64 *)v2);

  while( (a & SpatialDomain::topBit_) == 0 ) a = a << 2 ;
  while( (b & SpatialDomain::topBit_) == 0 ) b = b << 2 ;

  return (  ( a < b ) ? -1 : ( ( a > b ) ? 1 : 0 ) );
}

uint64 SpatialDomain::topBit_ = 0;
