#if !defined (_SpatialGeneral_h)
#define _SpatialGeneral_h
//# SpatialGeneral.h
//#
//# This file contains all SDSS Science Archive global information,
//# including Global Type Definitions, Global Macros, and Global Inlines
//#
//# Author:		Peter Z. Kunszt
//#	
//# Creation:		October 19, 1999
//#
//# (c) Copyright The Johns Hopkins University 1999
//# All Rights Reserved
//#
//# The software and information contained herein are proprietary to The
//# Johns Hopkins University, Copyright 1995, 1996. This software is furnished
//# pursuant to a written license agreement and may be used, copied,
//# transmitted, and stored only in accordance with the terms of such
//# license and with the inclusion of the above copyright notice.  This
//# software and information or any other copies thereof may not be
//# provided or otherwise made available to any other person.
//#
//# Modification History:


// using stdint is safer, especially for OSX.
// ESS
#include <stdint.h>

typedef uint8_t uint8;
typedef int8_t int8;

typedef uint16_t uint16;
typedef int16_t int16;

typedef uint32_t uint32;
typedef int32_t int32;

typedef uint64_t uint64;
typedef int64_t int64;

typedef float			float32;
typedef double			float64;

#define IDSIZE                     64
#define HTMNAMEMAX                 32
#define HTMMAXDEPTH                25
#define HTMMAXKEEP		   12
#define HTMMAXBIT		   14

// emulate the standard bool type where not supported by compiler

#  if !defined(__sgi) && !defined(__linux) && !defined(_WIN32)
#    ifdef __unix
/*
 * The following ifndef must ALWAYS be present since C++ may use
 * _BOOL_EXISTS to prevent the header from trying to redefine a
 * C++ reserved word.
 */
#      ifndef _BOOL_EXISTS
#         define _BOOL_EXISTS
#         ifndef bool

typedef unsigned char           bool;
const bool                      false = 0;
const bool                      true = 1;
#define bool(x) ((x) ? true : false)

#         endif
#      endif  /* _BOOL_EXISTS */
#    endif  /* __unix */
#  endif  /* __sgi && __linux */

// Global Math Constants

const float64 gPi = 3.1415926535897932385E0 ;
const float64 gPr = gPi/180.0; 
const float64 gEpsilon = 1.0E-15;
// CVSversion = "$Name:  $";

//
// To Simplify Porting, define our platforms:
// Digital UNIX -> SpatialDigitalUnix
// SGI          -> SpatialSGI
// WINNT        -> SpatialWinNT
//
// These are set here, and then included by everything else.

// Flag SpatialStandardTemplate: Defined to indicating proper method
// for explicit template instantiation.  If a compiler supports the
// standard explicit template instantiation, define.
//

#if defined(__unix)

#   if defined(__osf__)
#      define SpatialDigitalUnix 1
#      define SpatialStandardTemplate 1
#   elif defined(__sgi)
#      define SpatialSGI 1
#      define SpatialPragmaTemplateSGI 1
#   elif defined(__sun)
#      define SpatialSUN 1
#      define SpatialStandardTemplate 1
#   elif defined(__linux)
#      define SpatialLinux 1
#      define SpatialStandardTemplate 1
#   endif
#   define LINKAGE 

#elif defined(_WIN32)
#   define SpatialWinNT 1
#   define SpatialWINTemplate 1
// This warning is about template instances being exported in the dll...
#   pragma warning(disable: 4251)

// Define LINKAGE for NT VC++6 complier

#   ifdef _EXPORTING
#	define LINKAGE	__declspec(dllexport)
#   endif
#   ifdef _IMPORTING
#	define	LINKAGE	__declspec(dllimport)
#   endif

#endif  /* _WIN32 */

#ifndef SpatialWinNT
#   define IDHIGHBIT  0x8000000000000000LL
#   define IDHIGHBIT2 0x4000000000000000LL
#   ifdef SpatialDigitalUnix
#      define PRINTID(x) printf("%lu",(x))
#      define PRINTID_HEX(x) printf("%lX",(x))
#   else
#      define PRINTID(x) printf("%llu",(x))
#      define PRINTID_HEX(x) printf("%llX",(x))
#   endif
#else
#   define PRINTID(x) printf("%I64u",(x))
#   define PRINTID_HEX(x) printf("%I64X",(x))
#endif

#endif /* SPATIALGENERAL_H */
