//#     Filename:       BitList.hxx
//#
//#     Friend declarations for bitlist
//#
//#
//#     Author:         Peter Z. Kunszt
//#     
//#     Date:           June 3, 1998
//#
//#
//#
//# (c) Copyright The Johns Hopkins University 1998
//# All Rights Reserved
//#
//# The software and information contained herein are proprietary to The
//# Johns Hopkins University, Copyright 1998.  This software is furnished
//# pursuant to a written license agreement and may be used, copied,
//# transmitted, and stored only in accordance with the terms of such
//# license and with the inclusion of the above copyright notice.  This
//# software and information or any other copies thereof may not be
//# provided or otherwise made available to any other person.
//#
//#

//#######################################################################
//
// Friend functions to BitList
//

// Bitwise operators returning the result in a separate BitList.
// First argument: return list, second and third arguments: bitlists
// to process. AND operator
/*
BitList & and (BitList &, const BitList &, const BitList &);

// OR operator
BitList & or  (BitList &, const BitList &, const BitList &);

// XOR operator
BitList & xor (BitList &, const BitList &, const BitList &);

// NOT operator
BitList & not (BitList &, const BitList &);
*/
// </GROUP>
// 
