#ifndef _SpatialInterface_h
#define _SpatialInterface_h
//#     Filename:       SpatialInterface.h
//#
//#     Interfaceion interface
//#
//#
//#     Author:         Peter Z. Kunszt
//#     
//#     Date:           August 31, 2000
//#
//#
//#
//# (c) Copyright The Johns Hopkins University 2000
//# All Rights Reserved
//#
//# The software and information contained herein are proprietary to The
//# Johns Hopkins University, Copyright 1998.  This software is furnished
//# pursuant to a written license agreement and may be used, copied,
//# transmitted, and stored only in accordance with the terms of such
//# license and with the inclusion of the above copyright notice.  This
//# software and information or any other copies thereof may not be
//# provided or otherwise made available to any other person.
//#
//#
#include "SpatialIndex.h"
#include "SpatialDomain.h"
#include "VarVec.h"
#include "VarStr.h"

struct htmRange {
  uint64 lo;
  uint64 hi;
};

struct htmPolyCorner {
  SpatialVector c_;
  bool inside_;
  bool replace_;
};


/**
   htmInterface class.
   The SpatialInterface class contains all methods to interface the
   HTM index with external applications.

*/

//class LINKAGE htmInterface {
class htmInterface {
public:

  /** Constructor. The depth is optional, defaulting to level 5. It
      can be changed with the changeDepth() memberfunction or it can
      be specified with one of the string command interfaces. The
      saveDepth parameter can be specified to keep the given amount of
      levels in memory. This can also be altered by changeDepth. */
  htmInterface(size_t depth = 5, size_t saveDepth = 2);
  void init(size_t depth = 5, size_t saveDepth = 2);

  /** Destructor. */
  ~htmInterface();

  /** Access the index associated with the interface */
  const SpatialIndex & index() const;

  /** Lookup a node ID from ra,dec.
      Given a certain RA,DEC and index depth return its HTM ID.
  */
  uint64 lookupID(float64 ra, float64 dec) const;

  /** Lookup a node ID from x,y,z.
      Given a certain cartesian vector x,y,z and index depth return its HTM ID.
  */
  uint64 lookupID(float64 x, float64 y, float64 z) const;

  /** Lookup the ID from the Name string.
  */
  uint64 lookupID(char *) const;

  /** Lookup a node ID from a string command.
      The string in the input may have one of the following forms:
      <ul>
      <li> "J2000 depth ra dec"
      <li> "CARTESIAN depth x y z"
      <li> "NAME name"
      </ul>
      The string will be evaluated depending on how many items it has.
      SpatialInterfaceError is thrown if the string is unexpected.
  */
  uint64 lookupIDCmd(char *);

  /** Lookup a node name from ra,dec
      Given a certain RA,DEC and index depth return its HTM NodeName.
  */
  const char * lookupName(float64 ra, float64 dec) ;

  /** Lookup a node name from x,y,z.
      Given a certain cartesian vector x,y,z and index depth return its 
      HTM NodeName.
  */
  const char * lookupName(float64 x, float64 y, float64 z) ;

  /** Lookup a node name from a node ID.
  */
  const char * lookupName(uint64 ID) ;

  /** Lookup a node name using a string command.
      The string in the input may have one of the following forms:
      <ul>
      <li> "J2000 depth ra dec"
      <li> "CARTESIAN depth x y z"
      <li> "ID id"
      </ul>
      The string will be evaluated depending on how many items it has.
      SpatialInterfaceError is thrown if the string is unexpected.
  */
  const char * lookupNameCmd(char *);

  /** Request all triangles in a circular region.
      Given are the center coordinate and radius in arcminutes.
  */
  const ValVec<htmRange> & circleRegion( float64 ra,
					 float64 dec,
					 float64 rad ) ;

  /** Request all triangles in a circular region.
      Given are the center coordinate and radius in arcminutes.
  */
  const ValVec<htmRange> & circleRegion( float64 x,
					 float64 y,
					 float64 z,
					 float64 rad ) ;

  /** Request all triangles in a circular region.
      Given are the center coordinate and radius in arcminutes.
      Same as previous two functions but from a string.
  */
  const ValVec<htmRange> & circleRegionCmd( char *str );

  /** Request all triangles in the convex hull of a given set of 
      points.
  */
  const ValVec<htmRange> & convexHull( ValVec<float64> ra,
				       ValVec<float64> dec ) ;

  /** Request all triangles in the convex hull of a given set of 
      points.
  */
  const ValVec<htmRange> & convexHull( ValVec<float64> x,
				       ValVec<float64> y,
				       ValVec<float64> z ) ;

  /** Request all triangles in the convex hull of a given set of 
      points.
      The points are given in the string in the following form:
      <pre>
      " J2000 depth ra dec ra dec ra dec "  
      </pre>
      or
      <pre>
      " CARTESIAN depth x y z x y z x y z "
      </pre>
      There may be as many points ra, dec or x,y,z as you want.
  */
  const ValVec<htmRange> & convexHullCmd( char *str );


  /** Give the ranges for an intersection with a proper domain. */
  const ValVec<htmRange> & domain( SpatialDomain & );

  /** String interface for domain intersection.
      The domain should be given in the following form:
      <pre>
      DOMAIN depth
      nConvexes
      nConstraints in convex 1
      x y z d
      x y z d
      .
      .
      x y z d
      nConstraints in convex 2
      x y z d
      x y z d
      .
      .
      x y z d
      .
      .
      .
      nConstrinats in convex n
      x y z d
      x y z d
      .
      .
      x y z d
      <pre>

      <p>
      The numbers need to be separated by whitespace (newlines are allowed).
      Throws SpatialInterfaceError on syntax errors.
  */
  const ValVec<htmRange> & domainCmd( char *str );

  /** Change the current index depth */
  void changeDepth(size_t depth, size_t saveDepth = 2);

  /** Check whether a varstring is an integer */
  static bool isInteger(const VarStr &);

  /** Check whether a varstring is a float */
  static bool isFloat(const VarStr &);

  /** Check whether a range contains a certain id */
  static bool inRange( const ValVec<htmRange> &, int64 );

  /** Print the ranges to cout */
  static void printRange( const ValVec<htmRange> & );
private:

  enum cmdCode {
    J2000,
    CARTESIAN,
    NAME,
    ID,
    HTMDOMAIN
  };

  char name_[HTMNAMEMAX];
  SpatialIndex *index_;
  ValVec<htmRange> range_;
  ValVec<uint64> idList_;
  ValVec<htmPolyCorner> polyCorners_;
  VarStr cmd_;
  VarStrToken *t_;

  // parse command code
  cmdCode getCode();

  // parse depth
  void getDepth();

  // parse the string, returning the depth
  bool parseVec( cmdCode, float64 *v );

  int32   getInteger();   // get an int off the command string
  uint64  getInt64();     // get an int off the command string
  float64 getFloat();     // get a float off the command string

  // add a polygon corner to the list, sort it counterclockwise
  // and ignore if inside the convex hull
  void setPolyCorner(SpatialVector &v);

  // this routine does the work for all convexHull calls
  const ValVec<htmRange> & doHull();

  // generate ranges from idlist
  void makeRange();
};

#include "SpatialInterface.hxx"
#endif

