#ifndef _SpatialConstraint_h
#define _SpatialConstraint_h
//#     Filename:       SpatialConstraint.h
//#
//#     Classes defined here: SpatialConstraint SpatialSign
//#
//#
//#     Author:         Peter Z. Kunszt, based on A. Szalay's code
//#     
//#     Date:           October 16, 1998
//#
//#
//#
//# (c) Copyright The Johns Hopkins University 1998
//# All Rights Reserved
//#
//# The software and information contained herein are proprietary to The
//# Johns Hopkins University, Copyright 1998.  This software is furnished
//# pursuant to a written license agreement and may be used, copied,
//# transmitted, and stored only in accordance with the terms of such
//# license and with the inclusion of the above copyright notice.  This
//# software and information or any other copies thereof may not be
//# provided or otherwise made available to any other person.
//#
//#

#include "SpatialVector.h"

//########################################################################
//#
//# Spatial Sign helper class

/**
   The sign class is inherited by Constraint and Convex. Assignment and
   copy operators are used in both scopes.
*/

//class LINKAGE SpatialSign {
class SpatialSign {
public:
  enum Sign {
    nEG,			// All constraints negative or zero
    zERO,			// All constraints zero
    pOS,			// All constraints positive or zero
    mIXED			// At least one pos and one neg
  };

  /// Constructor
  SpatialSign(Sign sign = zERO);

  /// Copy constructor
  SpatialSign(const SpatialSign &);

  /// Assignment
  SpatialSign & operator =(const SpatialSign &);

protected:
  /// Sign value
  Sign sign_;
};

//########################################################################
//#
//# Spatial Constraint class
//#
/**
   The Constraint is really a cone on the sky-sphere. It is characterized
   by its direction a_, the opening angle s_ and its cosine -- the distance
   of the plane intersecting the sphere and the sphere center.
   If d_ = 0, we have a half-sphere. If it is negative, we have a 'hole'
   i.e. the room angle is larger than 90degrees.

   Example: positive distance
<pre>
.                   ____
.                ---    ---
.               /        /|\
.              /        / |=\
.             |        /  |==|     this side is in the convex.
.            |        /\s |===|
.            |------------|---| -> direction a
.            |        \   |===|
.             |        \  |==|
.              \        \ |=/
.               \        \|/
.                ---____---
.
.
.                     <-d-> is positive (s < 90)

</pre>
 Example: negative distance
<pre>
.                   ____
.                ---====---
.  this side is /========/|\
.  in the      /========/=| \
.  convex     |==== s__/==|  |
.            |===== / /===|   |
.  dir. a <- |------------|---|  'hole' in the sphere
.            |========\===|   |
.             |========\==|  |
.              \========\=| /
.               \========\|/
.                ---____---
.
.
.                     <-d-> is negative (s > 90)
</pre>
 for d=0 we have a half-sphere. Combining such, we get triangles, rectangles
 etc on the sphere surface (pure ZERO convexes)

*/

//class LINKAGE SpatialConstraint : public SpatialSign {
class SpatialConstraint : public SpatialSign {
public:
  /// Constructor
  SpatialConstraint() {};

  /// Initialization constructor
  SpatialConstraint(SpatialVector, float64);

  /// Copy constructor
  SpatialConstraint(const SpatialConstraint &);

  /// Assignment
  SpatialConstraint & operator =(const SpatialConstraint &);

  /// set vector
  void setVector(SpatialVector &);

  /// set distance
  void setDistance(float64);

  /// Invert
  void invert();

  /// check whether a vector is inside this
  bool contains(const SpatialVector v);

  /// give back vector
  SpatialVector & v() ;

  /// give back distance
  float64 d() const ;

  /// read
  void read(std::istream &in);

  /// read
  void readRaDec(std::istream &in);

  /// set ra,dec,d  E.S.S.
  void setRaDecD(float64 ra, float64 dec, float64 d);

  /// write
  void write(std::ostream &out) const;

private:
  SpatialVector a_;			// normal vector
  float64       d_;			// distance from origin
  float64       s_;			// cone angle in radians

  friend class SpatialIndex;
  friend class SpatialConvex;
  friend class SpatialDomain;
  friend class sxSpatialDomain;
};

#include "SpatialConstraint.hxx"
#endif
