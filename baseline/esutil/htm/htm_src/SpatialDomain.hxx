//#     Filename:       SpatialDomain.hxx
//#
//#     H declaratinos for SpatialDomain
//#
//#
//#     Author:         Peter Z. Kunszt
//#     
//#     Date:           October 16, 1998
//#
//#
//#
//# (c) Copyright The Johns Hopkins University 1998-1999
//# All Rights Reserved
//#
//# The software and information contained herein are proprietary to The
//# Johns Hopkins University, Copyright 1999.  This software is furnished
//# pursuant to a written license agreement and may be used, copied,
//# transmitted, and stored only in accordance with the terms of such
//# license and with the inclusion of the above copyright notice.  This
//# software and information or any other copies thereof may not be
//# provided or otherwise made available to any other person.
//#
//#

inline
SpatialConvex &
SpatialDomain::operator [](size_t i) {
  return convexes_[i];
}

inline
size_t
SpatialDomain::numConvexes() {
  return convexes_.length();
}

/////////////>>///////////////////////////////////////////
// read from istream
//
inline
std::istream& operator >>( std::istream& in, SpatialDomain & c) {
  c.read(in);
  return(in);
}

/////////////<<///////////////////////////////////////////
// write to ostream
//
inline
std::ostream& operator <<( std::ostream& out, const SpatialDomain & c) {
  c.write(out);
  return(out);
}

extern  int compUint64(const void*, const void*);
extern  int compRange (const void*, const void*);
