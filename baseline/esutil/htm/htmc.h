#ifndef _htm_python_wrapper_h
#define _htm_python_wrapper_h

#include <Python.h>
#include "SpatialInterface.h"
#include <stdint.h>
#include <vector>
#include <map>
#include "numpy/arrayobject.h"

typedef struct {
	int64_t i1;	
	int64_t i2;	
	double d12;
} PAIR_INFO;

struct PAIR_INFO_ORDERING {
	bool operator()(PAIR_INFO const& pi1, PAIR_INFO const& pi2) {
		return pi1.d12 < pi2.d12;
	}
};


// called HTMC because we will have another python-only class that
// inherits from this one.
class HTMC {
	public:

		HTMC(int depth=10) throw (const char *);
        void init(int depth=10) throw (const char *);
		~HTMC() {};


        // take in ra/dec and output the htm index for each
		void lookup_id(
                PyObject* ra_array, 
                PyObject* dec_array,
                PyObject* htm_ids_array
        ) throw (const char *);

        PyObject* intersect(
                            double ra, // all in degrees
                            double dec,
                            double radius, // degrees
                            int inclusive
                           ) throw (const char *);


        // this requires the reverse indices must already be created,
        // and other obscure inputs. The python wrapper takes care of
        // all that.
        /*
        PyObject* cmatch(
                PyObject* radius_array, // degrees
                PyObject* ra1_array, // all in degrees
                PyObject* dec1_array,
                PyObject* ra2_array, 
                PyObject* dec2_array,
                PyObject* htmrev2_array,
                PyObject* minid_obj,
                PyObject* maxid_obj,
				PyObject* maxmatch_obj,
				const char *filename) throw (const char *);
        */
        PyObject* cbincount(
                double rmin, // units of scale*angle in radians
                double rmax, // units of scale*angle in radians
				long nbin_object, 
                PyObject* ra1_array, // all in degrees
                PyObject* dec1_array,
                PyObject* ra2_array, 
                PyObject* dec2_array,
                PyObject* htmrev2_array,
                PyObject* minmax_ids_array,
				PyObject* scale_object=NULL,
                int verbose=0) // will bin in radians*scale.  
                                            // Same length as ra1.
                              throw (const char *);




        int get_depth() {
            return mDepth;
        }

    private:



        htmInterface mHtmInterface;
        int mDepth;
};

class Matcher {
	public:

        Matcher(int depth,
                PyObject* ra,
                PyObject* dec) throw (const char *);
        ~Matcher() {};

        int get_depth() {
            return depth;
        }

        PyObject* match(PyObject* radius_array, // degrees
                        PyObject* ra_array, // degrees
                        PyObject* dec_array,
                        long maxmatch,
                        const char* filename) throw (const char *);


    private:

        void init_hmap(void);

        int depth;
        htmInterface htm_interface;

        PyObject* ra;
        PyObject* dec;
        npy_intp npoints;

        std::map<int64_t, std::vector<int64_t> > hmap;

};


#endif
