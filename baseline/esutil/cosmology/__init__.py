"""
A package for calculating  cosmological distances.  

Classes
-------
Cosmo:
    This is the class that does all the calculating.  See docs on cosmology.Cosmo
    for more details.

    Cosmo Class Methods
    --------------
    DH: Return the hubble distance.
    Dc: Comoving distance.
    Dm: Transverse comoving distance.
    Da: Angular diameter distance.
    Dl: Luminosity distance.
    dV: Volume element.
    V:  Volume between two redshifts.
    distmod: Distance modulus.
    sigmacritinv: Inverse critical density for lensing.

    Ez_inverse: Calculate 1/E(z)
    Ezinv_integral: Calculate the integral of 1/E(z) from zmin to zmax


"""

# flake8: noqa

from . import cosmology
from .cosmology import Cosmo

__version__="1.1.0"
