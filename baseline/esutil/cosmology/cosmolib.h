#ifndef __COSMOLIB_H
#define __COSMOLIB_H

#define NPTS 5
#define VNPTS 10
#define FOUR_PI_G_OVER_C_SQUARED 6.0150504541630152e-07
#define CLIGHT 2.99792458e5

#ifndef M_PI
# define M_PI           3.14159265358979323846
#endif

struct cosmo {
    int flat; // is this a flat cosmology?

    double DH; // hubble distance
    double omega_m; // density parameters rho/rhocrit
    double omega_l;
    double omega_k;

    // this is sqrt(abs(omega_k))/DH
    double tcfac;

    double x[NPTS];
    double w[NPTS];

    double vx[VNPTS];
    double vw[VNPTS];
};

struct cosmo* cosmo_new(
        double DH, 
        int flat,
        double omega_m,
        double omega_l,
        double omega_k);

double ez_inverse(struct cosmo* c, double z);
double ez_inverse_integral(struct cosmo* c, double zmin, double zmax);

/* comoving distance in Mpc */
double Dc(struct cosmo* c, double zmin, double zmax);

// transverse comoving distance
double Dm(struct cosmo* c, double zmin, double zmax);

// angular diameter distances
double Da(struct cosmo* c, double zmin, double zmax);

// luminosity distances
double Dl(struct cosmo* c, double zmin, double zmax);

// comoving volume element
double dV(struct cosmo* c, double z);

// comoving volume between zmin and zmax
double V(struct cosmo* c, double zmin, double zmax);

// inverse critical density for lensing
double scinv(struct cosmo* c, double zl, double zs);

// generate gauss-legendre abcissa and weights
void gauleg(double x1, double x2, int npts, double* x, double* w);


#endif
