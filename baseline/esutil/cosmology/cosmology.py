from __future__ import print_function
import copy
import numpy as np
from numpy import isscalar, linspace
from . import _cosmolib


_CLIGHT = 2.99792458e5


class Cosmo(object):
    """
    A Class for calculating  cosmological distances.

    This is an implementation of Hogg, D., Distance measures in cosmology,
    astro-ph/9905116 The python class is a wrapper for fast C routines.

    Class Name
    ----------
    Cosmo

    import esutil
    c=esutil.cosmology.Cosmo()

    Methods
    -------
    DH: Return the hubble distance.
    Dc: Comoving distance.
    Dm: Transverse comoving distance.
    Da: Angular diameter distance.
    Dl: Luminosity distance.
    dV: Volume element.
    V:  Volume between two redshifts.
    distmod: Distance modulus.
    sigmacritinv: Inverse critical density for lensing.

    Ez_inverse: Calculate 1/E(z)
    Ezinv_integral: Calculate the integral of 1/E(z) from zmin to zmax

    flat(): return if universe is flat
    omega_m(): value of omega matter
    omega_l(): value of omega lambda
    omega_k(): value of omega curvature

    Optional Construction Keywords
    ------------------------------
    H0, h: float, optional
        Hubble constant in units of m/s/Mpc.  You can send either H0 or little
        h.  Default is H0=100
    flat: boolean, optional
        Force a flat geometry.  Default is True
    omega_m: float, optional
        Matter density relative to the critical density.  Default is 0.3
    omega_l: float, optional
        Dark energy density relative to the critical density.  If flat is True,
        omega_l = 1-omega_m
    omega_k: float, optional
        Curvature in units of the critical density. If flat, omega_k=0



    Examples:
        import cosmology
        c=cosmology.Cosmo()

        # comoving distance to z=0.5
        c.Dc(0.0, 0.5)

        # angular diameter distance between z=0.5 and z=0.9
        c.Da(0.5, 0.9)

        # luminosity distance between z=0.2 and a sequence of redshifts
        c.Dl(0.2, [0.3, 0.4, 0.5])

        # new cosmology
        c=cosmology.Cosmo(H0=70.0, omega_m=0.25)

        # inverse critical density for lensing, lens at 0.2 and
        # source at 0.3
        c.sigmacritinv(0.2, 0.3)

    Notes:
        Don't call the c codes directly, they do very little error checking.
        Error checking is dealt with in the Cosmo python class.

    Modification:
        Early 2011: Complete Re-write without using SWIG.
    """

    def __init__(
        self,
        H0=100.0,
        h=None,  # can send either h or H0
        flat=True,
        omega_m=0.3,
        omega_l=0.7,
        omega_k=None,
    ):

        # these are the input values, not extracted ones.  Useful for
        # building a copy
        self._flat = flat
        self._omega_m = omega_m
        self._omega_l = omega_l
        self._omega_k = omega_k

        flat, omega_m, omega_l, omega_k = self.extract_parms(
            omega_m, omega_l, omega_k, flat
        )

        if h is not None:
            H0 = 100.0 * h

        DH = _CLIGHT / H0

        self._cosmo = _cosmolib.cosmo(DH, flat, omega_m, omega_l, omega_k)

        self.Distmod = self.distmod

        self._H0 = H0

    def __reduce__(self):
        return (self.__class__, (self._pars))

    def H0(self):
        return copy.deepcopy(self._H0)

    def DH(self):
        return self._cosmo.DH()

    def flat(self):
        return self._cosmo.flat()

    def omega_m(self):
        return self._cosmo.omega_m()

    def omega_l(self):
        return self._cosmo.omega_l()

    def omega_k(self):
        return self._cosmo.omega_k()

    @property
    def _pars(self):
        return (
            self.H0(),
            None,
            bool(self.flat()),
            self.omega_m(),
            self.omega_l(),
            self.omega_k(),
        )

    def Dc(self, zmin, zmax):
        """
        Calculate the comoving distance from zmin to zmax in units of Mpc.

        Parameters
        ----------
        zmin, zmax: scalars or arrays
            The following combinations are supported
                1) Two scalars
                2) zmin a scalar and zmax an array
                3) zmin an array and zmax a scalar
                4) Both arrays of the same length.

        """

        if isscalar(zmin) and isscalar(zmax):
            # two scalars of any kind.
            d = self._cosmo.Dc(zmin, zmax)

        elif not isscalar(zmin) and isscalar(zmax):
            # scalar for zmin, array for zmax
            zmin = _as_c_order(zmin)
            d = self._cosmo.Dc_vec1(zmin, zmax)

        elif isscalar(zmin) and not isscalar(zmax):
            # array for zmin, scalar zmax
            zmax = _as_c_order(zmax)
            d = self._cosmo.Dc_vec2(zmin, zmax)

        elif not isscalar(zmin) and not isscalar(zmax):
            # both arrays: must be same length
            zmin = _as_c_order(zmin)
            zmax = _as_c_order(zmax)
            if len(zmin) != len(zmax):
                raise ValueError(
                    "If zmin and zmax are arrays, they must be same length"
                )
            d = self._cosmo.Dc_2vec(zmin, zmax)
        else:
            raise ValueError(
                "zmin,zmax should be two scalars, zmin scalar zmax array, "
                "or both arrays"
            )

        return d

    def Dm(self, zmin, zmax):
        """
        Calculate the transvers comoving distance from zmin to zmax in units of
        Mpc.


        Useful for calculating transverse comoving distance at zmax.  When zmin
        is not zero, useful in calculating angular diameter distances

        Parameters
        ----------
        zmin, zmax: scalars or arrays
            The following combinations are supported
                1) Two scalars
                2) zmin a scalar and zmax an array
                3) zmin an array and zmax a scalar
                4) Both arrays of the same length.

        """

        if isscalar(zmin) and isscalar(zmax):
            # two scalars of any kind.
            d = self._cosmo.Dm(zmin, zmax)

        elif not isscalar(zmin) and isscalar(zmax):
            # scalar for zmin, array for zmax
            zmin = _as_c_order(zmin)
            d = self._cosmo.Dm_vec1(zmin, zmax)

        elif isscalar(zmin) and not isscalar(zmax):
            # array for zmin, scalar zmax
            zmax = _as_c_order(zmax)
            d = self._cosmo.Dm_vec2(zmin, zmax)

        elif not isscalar(zmin) and not isscalar(zmax):
            # both arrays: must be same length
            zmin = _as_c_order(zmin)
            zmax = _as_c_order(zmax)
            if len(zmin) != len(zmax):
                raise ValueError(
                    "If zmin and zmax are arrays, they must be same length"
                )
            d = self._cosmo.Dm_2vec(zmin, zmax)
        else:
            raise ValueError(
                "zmin,zmax should be two scalars, zmin scalar zmax array, "
                "or both arrays"
            )

        return d

    def Da(self, zmin, zmax):
        """
        Calculate the angular diameter distance from zmin to zmax in units of
        Mpc.


        Parameters
        ----------
        zmin, zmax: scalars or arrays
            The following combinations are supported
                1) Two scalars
                2) zmin a scalar and zmax an array
                3) zmin an array and zmax a scalar
                4) Both arrays of the same length.

        """

        if isscalar(zmin) and isscalar(zmax):
            # two scalars of any kind.
            d = self._cosmo.Da(zmin, zmax)

        elif not isscalar(zmin) and isscalar(zmax):
            # scalar for zmin, array for zmax
            zmin = _as_c_order(zmin)
            d = self._cosmo.Da_vec1(zmin, zmax)

        elif isscalar(zmin) and not isscalar(zmax):
            # array for zmin, scalar zmax
            zmax = _as_c_order(zmax)
            d = self._cosmo.Da_vec2(zmin, zmax)

        elif not isscalar(zmin) and not isscalar(zmax):
            # both arrays: must be same length
            zmin = _as_c_order(zmin)
            zmax = _as_c_order(zmax)
            if len(zmin) != len(zmax):
                raise ValueError(
                    "If zmin and zmax are arrays, they must be same length"
                )
            d = self._cosmo.Da_2vec(zmin, zmax)
        else:
            raise ValueError(
                "zmin,zmax should be two scalars, zmin scalar zmax array, or "
                "both arrays"
            )

        return d

    def Dl(self, zmin, zmax):
        """
        Calculate the luminosity distance from zmin to zmax in units of Mpc.


        Parameters
        ----------
        zmin, zmax: scalars or arrays
            The following combinations are supported
                1) Two scalars
                2) zmin a scalar and zmax an array
                3) zmin an array and zmax a scalar
                4) Both arrays of the same length.

        """

        if isscalar(zmin) and isscalar(zmax):
            # two scalars of any kind.
            d = self._cosmo.Dl(zmin, zmax)

        elif not isscalar(zmin) and isscalar(zmax):
            # scalar for zmin, array for zmax
            zmin = _as_c_order(zmin)
            d = self._cosmo.Dl_vec1(zmin, zmax)

        elif isscalar(zmin) and not isscalar(zmax):
            # array for zmin, scalar zmax
            zmax = _as_c_order(zmax)
            d = self._cosmo.Dl_vec2(zmin, zmax)

        elif not isscalar(zmin) and not isscalar(zmax):
            # both arrays: must be same length
            zmin = _as_c_order(zmin)
            zmax = _as_c_order(zmax)
            if len(zmin) != len(zmax):
                raise ValueError(
                    "If zmin and zmax are arrays, they must be same length"
                )
            d = self._cosmo.Dl_2vec(zmin, zmax)
        else:
            raise ValueError(
                "zmin,zmax should be two scalars, zmin scalar zmax array, or "
                "both arrays"
            )

        return d

    def dV(self, z):
        """
        Calculate the volume element at redshift z

        Parameters
        ----------
        z: scalar or array
            Redshift
        """
        if isscalar(z):
            dv = self._cosmo.dV(z)
        else:
            z = _as_c_order(z)
            dv = self._cosmo.dV_vec(z)

        return dv

    def V(self, zmin, zmax):
        """
        Calculate the comoving volume between zmin and zmax.

        Note this function previously returned the volume per steradian.  To
        get the old behavior divide by 4*pi

        Parameters
        ----------
        zmin, zmax: scalars
            min and max redshifts
        """
        return self._cosmo.V(zmin, zmax)

    def distmod(self, z):
        """
        Calculate the distance modulus to the given redshift.

        Parameters
        ----------
        z: scalar or array
            The redshift
        """

        dmpc = self.Dl(0.0, z)
        dpc = dmpc * 1.0e6
        dm = 5.0 * np.log10(dpc / 10.0)
        return dm

    def sigmacritinv(self, zl, zs):
        """
        Calculate the inverse critical density for the lens and source
        redshifts


        Parameters
        ----------
        zl, zs: scalars or arrays
            The following combinations are supported
                1) Two scalars
                2) zmin a scalar and zmax an array
                3) zmin an array and zmax a scalar
                4) Both arrays of the same length.

        """

        if isscalar(zl) and isscalar(zs):
            # two scalars of any kind.
            scinv = self._cosmo.scinv(zl, zs)

        elif not isscalar(zl) and isscalar(zs):
            # scalar for zl, array for zs
            zl = _as_c_order(zl)
            scinv = self._cosmo.scinv_vec1(zl, zs)

        elif isscalar(zl) and not isscalar(zs):
            # array for zl, scalar zs
            zs = _as_c_order(zs)
            scinv = self._cosmo.scinv_vec2(zl, zs)

        elif not isscalar(zl) and not isscalar(zs):
            # both arrays: must be same length
            zl = _as_c_order(zl)
            zs = _as_c_order(zs)
            if len(zl) != len(zs):
                raise ValueError(
                    "If zl and zs are arrays, they must be same length",
                )
            scinv = self._cosmo.scinv_2vec(zl, zs)
        else:
            raise ValueError(
                "zl,zs should be two scalars, zl scalar zs array, or "
                "both arrays"
            )

        return scinv

    def Ez_inverse(self, z):
        """
        Integrate kernel 1/E(z) from 0 to z.

        1/E(z) is used for distance calculations in FRW.

        Parameters
        ----------
        z: scalar or array
            The redshift
        """

        if isscalar(z):
            ez = self._cosmo.ez_inverse(z)
        else:
            z = _as_c_order(z)
            ez = self._cosmo.ez_inverse_vec(z)

        return ez

    def Ezinv_integral(self, zmin, zmax):
        """
        Integrate kernel 1/E(z) from zmin to zmax.

        1/E(z) is used for distance calculations in FRW.

        Parameters
        ----------
        zmin,zmax: scalars
            The redshifts
        """

        return self._cosmo.ez_inverse_integral(zmin, zmax)

    def __repr__(self):
        m = """H0:      %s
flat:    %s
omega_m: %s
omega_l: %s
omega_k: %s
        """ % (
            self._H0,
            self.flat(),
            self.omega_m(),
            self.omega_l(),
            self.omega_k(),
        )
        return m

    def copy(self):
        """
        make a copy.  Note this is not the usual
        copy, it just makes a new instance.
        """
        return Cosmo(
            H0=self._H0,
            flat=self._flat,
            omega_m=self._omega_m,
            omega_l=self._omega_l,
            omega_k=self._omega_k,
        )

    def __copy__(self):
        """
        make a copy.  Note this is not the usual
        copy, it just makes a new instance.
        """
        return self.copy()

    def __deepcopy__(self, memo):
        """
        make a copy.  Note this is not the usual
        deepcopy, it just makes a new instance.
        """
        return self.copy()

    def extract_parms(self, omega_m, omega_l, omega_k, flat):
        if omega_k is not None:
            # if omega_k is 0.0, we will set flat=True to simplify
            # the calculations
            if omega_k == 0.0:
                flat = True
            else:
                flat = False

        if omega_k is None:
            # without omega_k set we default to flat
            flat = True
            omega_k = 0.0
        elif flat:
            # finally, if flat is set we always put omega_k = 0
            omega_k = 0.0

        if flat:
            omega_l = 1.0 - omega_m

        return flat, omega_m, omega_l, omega_k

    def test(self):

        print("ez_inverse:")
        print("     ", self.Ez_inverse(0.2))

        print("ez_inverse vec:")
        print("     ", self.Ez_inverse([0.2, 0.4]))

        print("ez_inverse_integral")
        print("     ", self.Ezinv_integral(0.2, 0.4))

        print("\nDc")
        print("     ", self.Dc(0.2, 0.4))

        print("Dc vec1")
        print("     ", self.Dc([0.2, 0.3], 0.4))

        print("Dc vec2")
        print("     ", self.Dc(0.1, [0.2, 0.3]))

        print("Dc 2 vec")
        print("     ", self.Dc([0.1, 0.1], [0.2, 0.3]))

        print("\nDm")
        print("     ", self.Dm(0.2, 0.4))

        print("Dm vec1")
        print("     ", self.Dm([0.2, 0.3], 0.4))

        print("Dm vec2")
        print("     ", self.Dm(0.1, [0.2, 0.3]))

        print("Dm 2 vec")
        print("     ", self.Dm([0.1, 0.1], [0.2, 0.3]))

        print("\nDa")
        print("     ", self.Da(0.2, 0.4))

        print("Da vec1")
        print("     ", self.Da([0.2, 0.3], 0.4))

        print("Da vec2")
        print("     ", self.Da(0.1, [0.2, 0.3]))

        print("Da 2 vec")
        print("     ", self.Da([0.1, 0.1], [0.2, 0.3]))

        print("\nDl")
        print("     ", self.Dl(0.2, 0.4))

        print("Dl vec1")
        print("     ", self.Dl([0.2, 0.3], 0.4))

        print("Dl vec2")
        print("     ", self.Dl(0.1, [0.2, 0.3]))

        print("Dl 2 vec")
        print("     ", self.Dl([0.1, 0.1], [0.2, 0.3]))

        print("\ndV")
        print("     ", self.dV(0.4))

        print("dV vec1")
        print("     ", self.dV([0.2, 0.3]))

        print("\nV")
        print("     ", self.V(0.1, 0.4))

        print("\nsigmacritinv")
        print("     ", self.sigmacritinv(0.1, 0.4))

        print("sigmacritinv vec1")
        print("     ", self.sigmacritinv([0.2, 0.3], 0.4))

        print("sigmacritinv vec2")
        print("     ", self.sigmacritinv(0.1, [0.2, 0.3]))

        print("sigmacritinv 2 vec")
        print("     ", self.sigmacritinv([0.1, 0.1], [0.2, 0.3]))

    def test_vs_purepy(self, ntime=0):
        import time
        from .. import cosmology_purepy

        cpy = cosmology_purepy.Cosmo(
            H0=self.H0(),
            flat=self.flat,
            omega_m=self.omega_m(),
            omega_l=self.omega_l(),
            omega_k=self.omega_k(),
        )

        print("Comparing ez_inverse:")
        print("  this:  ", self.Ez_inverse(0.2))
        print("  purepy:", cpy.Ez_inverse(0.2))

        print("Comparing ez_inverse vec:")
        print("  this:  ", self.Ez_inverse([0.2, 0.4]))
        print("  purepy:", cpy.Ez_inverse([0.2, 0.4]))

        print("Comparing ez_inverse_integral")
        print("  this:  ", self.Ezinv_integral(0.2, 0.4))
        print("  purepy:", cpy.Ezinv_integral(0.2, 0.4))

        print("\nComparing Dc")
        print("  this:  ", self.Dc(0.2, 0.4))
        print("  purepy:", cpy.Dc(0.2, 0.4)[0])

        print("Comparing Dc vec1")
        print("  this:  ", self.Dc([0.2, 0.3], 0.4))
        print("  purepy:", cpy.Dc([0.2, 0.3], 0.4))

        print("Comparing Dc vec2")
        print("  this:  ", self.Dc(0.1, [0.2, 0.3]))
        print("  purepy:", cpy.Dc(0.1, [0.2, 0.3]))

        print("Comparing Dc 2 vec")
        print("  this:  ", self.Dc([0.1, 0.1], [0.2, 0.3]))
        print("  purepy:", cpy.Dc([0.1, 0.1], [0.2, 0.3]))

        print("\nComparing Dm")
        print("  this:  ", self.Dm(0.2, 0.4))
        print("  purepy:", cpy.Dm(0.2, 0.4)[0])

        print("Comparing Dm vec1")
        print("  this:  ", self.Dm([0.2, 0.3], 0.4))
        print("  purepy:", cpy.Dm([0.2, 0.3], 0.4))

        print("Comparing Dm vec2")
        print("  this:  ", self.Dm(0.1, [0.2, 0.3]))
        print("  purepy:", cpy.Dm(0.1, [0.2, 0.3]))

        print("Comparing Dm 2 vec")
        print("  this:  ", self.Dm([0.1, 0.1], [0.2, 0.3]))
        print("  purepy:", cpy.Dm([0.1, 0.1], [0.2, 0.3]))

        print("\nComparing Da")
        print("  this:  ", self.Da(0.2, 0.4))
        print("  purepy:", cpy.Da(0.2, 0.4)[0])

        print("Comparing Da vec1")
        print("  this:  ", self.Da([0.2, 0.3], 0.4))
        print("  purepy:", cpy.Da([0.2, 0.3], 0.4))

        print("Comparing Da vec2")
        print("  this:  ", self.Da(0.1, [0.2, 0.3]))
        print("  purepy:", cpy.Da(0.1, [0.2, 0.3]))

        print("Comparing Da 2 vec")
        print("  this:  ", self.Da([0.1, 0.1], [0.2, 0.3]))
        print("  purepy:", cpy.Da([0.1, 0.1], [0.2, 0.3]))

        print("\nComparing Dl")
        print("  this:  ", self.Dl(0.2, 0.4))
        print("  purepy:", cpy.Dl(0.2, 0.4)[0])

        print("Comparing Dl vec1")
        print("  this:  ", self.Dl([0.2, 0.3], 0.4))
        print("  purepy:", cpy.Dl([0.2, 0.3], 0.4))

        print("Comparing Dl vec2")
        print("  this:  ", self.Dl(0.1, [0.2, 0.3]))
        print("  purepy:", cpy.Dl(0.1, [0.2, 0.3]))

        print("Comparing Dl 2 vec")
        print("  this:  ", self.Dl([0.1, 0.1], [0.2, 0.3]))
        print("  purepy:", cpy.Dl([0.1, 0.1], [0.2, 0.3]))

        print("\nComparing dV")
        print("  this:  ", self.dV(0.4))
        print("  purepy:", cpy.dV(0.4)[0])

        print("Comparing dV vec1")
        print("  this:  ", self.dV([0.2, 0.3]))
        print("  purepy:", cpy.dV([0.2, 0.3]))

        print("\nComparing V")
        print("  this:  ", self.V(0.1, 0.4))
        print("  purepy:", cpy.V(0.1, 0.4)[0])

        print("\nComparing sigmacritinv")
        print("  this:  ", self.sigmacritinv(0.1, 0.4))
        print("  purepy:", cpy.sigmacritinv(0.1, 0.4)[0])

        print("Comparing sigmacritinv vec1")
        print("  this:  ", self.sigmacritinv([0.2, 0.3], 0.4))
        print("  purepy:", cpy.sigmacritinv([0.2, 0.3], 0.4))

        print("Comparing sigmacritinv vec2")
        print("  this:  ", self.sigmacritinv(0.1, [0.2, 0.3]))
        print("  purepy:", cpy.sigmacritinv(0.1, [0.2, 0.3]))

        print("Comparing sigmacritinv 2 vec")
        print("  this:  ", self.sigmacritinv([0.1, 0.1], [0.2, 0.3]))
        print("  purepy:", cpy.sigmacritinv([0.1, 0.1], [0.2, 0.3]))

        if ntime > 0:
            print("\nComparing timings for sigmacritinv")
            tm = 0.0
            tmpy = 0.0
            print("   doing c code")
            for i in range(ntime):
                tm0 = time.time()
                self.Da(0.0, linspace(0.1, 0.2, 100000))
                tm += time.time() - tm0

            print("   doing python code")
            for i in range(ntime):
                tm0 = time.time()
                cpy.Da(0.0, linspace(0.1, 0.2, 100000))
                tmpy += time.time() - tm0

            print("C code:", tm)
            print("pure py code:", tmpy)
            print("C code is", tmpy / tm, "faster")


def _as_c_order(arr):
    return np.atleast_1d(np.asarray(arr, dtype='f8', order='C'))
