/*
 
 This is a python class definition, wrapping the cosmological distance
 calculations in cosmolib.c.  The "struct cosmo" is the underlying
 "class" and the functions are the methods.
 
 These wrappers are minimal.  Scalars are converted as needed, but there is no
 conversion of the input types to arrays for the "vec" vectorized versions of
 the functions.  It is the responsibility of the python wrapper in cosmology.py
 to take care of that.

 I think this is the right compromise:  it is messier to write the C versions
 of these type checks, but is fairly trivial to write the python checks and
 conversions.

 I also could have generated this with SWIG.  But I'm experienced enough in
 creating these classes that it is actually less work to write it explicitly
 than mess around with SWIG complications.  And this file is a factor of
 ten smaller than the corresponding SWIG wrapper. The size of the SWIG wrapper
 is dominated by all the type conversions, which I do in the python wrapper.

 April 2011
 Erin Sheldon, Brookhaven National Laboratory

 */

#include <Python.h>
#include "cosmolib.h"
#include <numpy/arrayobject.h> 

struct PyCosmoObject {
  PyObject_HEAD
  struct cosmo* cosmo;
};



static void
PyCosmoObject_dealloc(struct PyCosmoObject* self)
{
    free(self->cosmo);

#if PY_MAJOR_VERSION >= 3
    // introduced in python 2.6
    Py_TYPE(self)->tp_free((PyObject*)self);
#else
    // old way, removed in python 3
    self->ob_type->tp_free((PyObject*)self);
#endif


}


static int
PyCosmoObject_init(struct PyCosmoObject* self, PyObject *args, PyObject *kwds)
{
    double DH;
    int flat;
    double omega_m, omega_l, omega_k;

    free(self->cosmo);

    if (!PyArg_ParseTuple(args, 
                          (char*)"diddd", 
                          &DH, &flat, &omega_m, &omega_l, &omega_k)) {
        printf("failed to Parse init");
        return -1;
    }

    self->cosmo = cosmo_new(DH, flat, omega_m, omega_l, omega_k);
    if (self->cosmo == NULL) {
        PyErr_SetString(PyExc_MemoryError, "Failed to allocate struct cosmo");
        return -1;
    }
    return 0;
}

static PyObject *
PyCosmoObject_repr(struct PyCosmoObject* self) {
#if PY_MAJOR_VERSION >= 3
    const char* code="y";
#else
    const char* code="s";
#endif

    char repr[255];
    if (self->cosmo != NULL) {
        sprintf(repr, "flat:    %d\n"
                      "DH:      %f\n"
                      "omega_m: %f\n" 
                      "omega_l: %f\n" 
                      "omega_k: %f", 
                      self->cosmo->flat, 
                      self->cosmo->DH, 
                      self->cosmo->omega_m, 
                      self->cosmo->omega_l, 
                      self->cosmo->omega_k);
        return Py_BuildValue(code, repr);
    }  else {
        return Py_BuildValue(code, "");
    }
}

static PyObject* PyCosmoObject_DH(struct PyCosmoObject* self) {
    return PyFloat_FromDouble(self->cosmo->DH);
}
static PyObject* PyCosmoObject_flat(struct PyCosmoObject* self) {
    return PyLong_FromLong((long) self->cosmo->flat);
}
static PyObject* PyCosmoObject_omega_m(struct PyCosmoObject* self) {
    return PyFloat_FromDouble(self->cosmo->omega_m);
}
static PyObject* PyCosmoObject_omega_l(struct PyCosmoObject* self) {
    return PyFloat_FromDouble(self->cosmo->omega_l);
}
static PyObject* PyCosmoObject_omega_k(struct PyCosmoObject* self) {
    return PyFloat_FromDouble(self->cosmo->omega_k);
}

/*
   The wrapper methods and vectorizations.

   For the array inputs, the caller is responsible for making sure the input is
   an array, contiguous, of the right data type.  That is much more easily
   done in the python wrapper.
*/


static PyObject*
PyCosmoObject_ez_inverse(struct PyCosmoObject* self, PyObject* args) {
    double z;
    double ezinv;

    if (!PyArg_ParseTuple(args, (char*)"d", &z)) {
        return NULL;
    }

    ezinv = ez_inverse(self->cosmo, z);
    return PyFloat_FromDouble(ezinv);
}
static PyObject*
PyCosmoObject_ez_inverse_vec(struct PyCosmoObject* self, PyObject* args) {
    PyObject* zObj=NULL, *resObj=NULL;;
    double *z, *res;
    npy_intp n, i;

    if (!PyArg_ParseTuple(args, (char*)"O", &zObj)) {
        return NULL;
    }

    n = PyArray_SIZE(zObj);
    z = (double* )PyArray_DATA(zObj);

    resObj = PyArray_ZEROS(1, &n, NPY_FLOAT64, 0);
    res = (double* )PyArray_DATA(resObj);

    for (i=0; i<n; i++) {
        res[i] = ez_inverse(self->cosmo, z[i]);
    }

    return resObj;

}



static PyObject*
PyCosmoObject_ez_inverse_integral(struct PyCosmoObject* self, PyObject* args) {
    double zmin, zmax;
    double ezinv_int;

    if (!PyArg_ParseTuple(args, (char*)"dd", &zmin, &zmax)) {
        return NULL;
    }

    ezinv_int = ez_inverse_integral(self->cosmo, zmin, zmax);
    return PyFloat_FromDouble(ezinv_int);
}




// comoving distance and vectorizations
static PyObject*
PyCosmoObject_Dc(struct PyCosmoObject* self, PyObject* args) {
    double zmin, zmax;
    double d;

    if (!PyArg_ParseTuple(args, (char*)"dd", &zmin, &zmax)) {
        return NULL;
    }

    d = Dc(self->cosmo, zmin, zmax);
    return PyFloat_FromDouble(d);

}


static PyObject*
PyCosmoObject_Dc_vec1(struct PyCosmoObject* self, PyObject* args) {
    PyObject* zminObj=NULL, *resObj=NULL;;
    double *zmin, zmax, *res;
    npy_intp n, i;

    if (!PyArg_ParseTuple(args, (char*)"Od", &zminObj, &zmax)) {
        return NULL;
    }

    n = PyArray_SIZE(zminObj);
    zmin = (double* )PyArray_DATA(zminObj);

    resObj = PyArray_ZEROS(1, &n, NPY_FLOAT64, 0);
    res = (double* )PyArray_DATA(resObj);

    for (i=0; i<n; i++) {
        res[i] = self->cosmo->DH*ez_inverse_integral(self->cosmo, zmin[i], zmax); 
    }

    return resObj;

}

static PyObject*
PyCosmoObject_Dc_vec2(struct PyCosmoObject* self, PyObject* args) {
    PyObject* zmaxObj=NULL, *resObj=NULL;;
    double zmin, *zmax, *res;
    npy_intp n, i;

    if (!PyArg_ParseTuple(args, (char*)"dO", &zmin, &zmaxObj)) {
        return NULL;
    }

    n = PyArray_SIZE(zmaxObj);
    zmax = (double* )PyArray_DATA(zmaxObj);

    resObj = PyArray_ZEROS(1, &n, NPY_FLOAT64, 0);
    res = (double* )PyArray_DATA(resObj);

    for (i=0; i<n; i++) {
        res[i] = self->cosmo->DH*ez_inverse_integral(self->cosmo, zmin, zmax[i]); 
    }

    return resObj;
}

static PyObject*
PyCosmoObject_Dc_2vec(struct PyCosmoObject* self, PyObject* args) {
    PyObject* zmaxObj, *zminObj=NULL, *resObj=NULL;
    double *zmin, *zmax, *res;
    npy_intp n, i;

    if (!PyArg_ParseTuple(args, (char*)"OO", &zminObj, &zmaxObj)) {
        return NULL;
    }

    n = PyArray_SIZE(zminObj);
    zmin = (double* )PyArray_DATA(zminObj);
    zmax = (double* )PyArray_DATA(zmaxObj);

    resObj = PyArray_ZEROS(1, &n, NPY_FLOAT64, 0);
    res = (double* )PyArray_DATA(resObj);

    for (i=0; i<n; i++) {
        res[i] = self->cosmo->DH*ez_inverse_integral(self->cosmo, zmin[i], zmax[i]); 
    }

    return resObj;
}

// transverse comoving distance and vectorizations
static PyObject*
PyCosmoObject_Dm(struct PyCosmoObject* self, PyObject* args) {
    double zmin, zmax;
    double d;

    if (!PyArg_ParseTuple(args, (char*)"dd", &zmin, &zmax)) {
        return NULL;
    }

    d = Dm(self->cosmo, zmin, zmax);
    return PyFloat_FromDouble(d);

}

static PyObject*
PyCosmoObject_Dm_vec1(struct PyCosmoObject* self, PyObject* args) {
    PyObject* zminObj=NULL, *resObj=NULL;;
    double *zmin, zmax, *res;
    npy_intp n, i;

    if (!PyArg_ParseTuple(args, (char*)"Od", &zminObj, &zmax)) {
        return NULL;
    }

    n = PyArray_SIZE(zminObj);
    zmin = (double* )PyArray_DATA(zminObj);

    resObj = PyArray_ZEROS(1, &n, NPY_FLOAT64, 0);
    res = (double* )PyArray_DATA(resObj);

    for (i=0; i<n; i++) {
        res[i] = Dm(self->cosmo, zmin[i], zmax); 
    }

    return resObj;

}

static PyObject*
PyCosmoObject_Dm_vec2(struct PyCosmoObject* self, PyObject* args) {
    PyObject* zmaxObj=NULL, *resObj=NULL;;
    double zmin, *zmax, *res;
    npy_intp n, i;

    if (!PyArg_ParseTuple(args, (char*)"dO", &zmin, &zmaxObj)) {
        return NULL;
    }

    n = PyArray_SIZE(zmaxObj);
    zmax = (double* )PyArray_DATA(zmaxObj);

    resObj = PyArray_ZEROS(1, &n, NPY_FLOAT64, 0);
    res = (double* )PyArray_DATA(resObj);

    for (i=0; i<n; i++) {
        res[i] = Dm(self->cosmo, zmin, zmax[i]); 
    }

    return resObj;
}

static PyObject*
PyCosmoObject_Dm_2vec(struct PyCosmoObject* self, PyObject* args) {
    PyObject* zmaxObj, *zminObj=NULL, *resObj=NULL;
    double *zmin, *zmax, *res;
    npy_intp n, i;

    if (!PyArg_ParseTuple(args, (char*)"OO", &zminObj, &zmaxObj)) {
        return NULL;
    }

    n = PyArray_SIZE(zminObj);
    zmin = (double* )PyArray_DATA(zminObj);
    zmax = (double* )PyArray_DATA(zmaxObj);

    resObj = PyArray_ZEROS(1, &n, NPY_FLOAT64, 0);
    res = (double* )PyArray_DATA(resObj);

    for (i=0; i<n; i++) {
        res[i] = Dm(self->cosmo, zmin[i], zmax[i]); 
    }

    return resObj;
}


// Angular diameter distance
static PyObject*
PyCosmoObject_Da(struct PyCosmoObject* self, PyObject* args) {
    double zmin, zmax;
    double d;

    if (!PyArg_ParseTuple(args, (char*)"dd", &zmin, &zmax)) {
        return NULL;
    }

    d = Da(self->cosmo, zmin, zmax);
    return PyFloat_FromDouble(d);

}

static PyObject*
PyCosmoObject_Da_vec1(struct PyCosmoObject* self, PyObject* args) {
    PyObject* zminObj=NULL, *resObj=NULL;;
    double *zmin, zmax, *res;
    npy_intp n, i;

    if (!PyArg_ParseTuple(args, (char*)"Od", &zminObj, &zmax)) {
        return NULL;
    }

    n = PyArray_SIZE(zminObj);
    zmin = (double* )PyArray_DATA(zminObj);

    resObj = PyArray_ZEROS(1, &n, NPY_FLOAT64, 0);
    res = (double* )PyArray_DATA(resObj);

    for (i=0; i<n; i++) {
        res[i] = Da(self->cosmo, zmin[i], zmax); 
    }

    return resObj;

}

static PyObject*
PyCosmoObject_Da_vec2(struct PyCosmoObject* self, PyObject* args) {
    PyObject* zmaxObj=NULL, *resObj=NULL;;
    double zmin, *zmax, *res;
    npy_intp n, i;

    if (!PyArg_ParseTuple(args, (char*)"dO", &zmin, &zmaxObj)) {
        return NULL;
    }

    n = PyArray_SIZE(zmaxObj);
    zmax = (double* )PyArray_DATA(zmaxObj);

    resObj = PyArray_ZEROS(1, &n, NPY_FLOAT64, 0);
    res = (double* )PyArray_DATA(resObj);

    for (i=0; i<n; i++) {
        res[i] = Da(self->cosmo, zmin, zmax[i]); 
    }

    return resObj;
}

static PyObject*
PyCosmoObject_Da_2vec(struct PyCosmoObject* self, PyObject* args) {
    PyObject* zmaxObj, *zminObj=NULL, *resObj=NULL;
    double *zmin, *zmax, *res;
    npy_intp n, i;

    if (!PyArg_ParseTuple(args, (char*)"OO", &zminObj, &zmaxObj)) {
        return NULL;
    }

    n = PyArray_SIZE(zminObj);
    zmin = (double* )PyArray_DATA(zminObj);
    zmax = (double* )PyArray_DATA(zmaxObj);

    resObj = PyArray_ZEROS(1, &n, NPY_FLOAT64, 0);
    res = (double* )PyArray_DATA(resObj);

    for (i=0; i<n; i++) {
        res[i] = Da(self->cosmo, zmin[i], zmax[i]); 
    }

    return resObj;
}


// luminosity distance
static PyObject*
PyCosmoObject_Dl(struct PyCosmoObject* self, PyObject* args) {
    double zmin, zmax;
    double d;

    if (!PyArg_ParseTuple(args, (char*)"dd", &zmin, &zmax)) {
        return NULL;
    }

    d = Dl(self->cosmo, zmin, zmax);
    return PyFloat_FromDouble(d);

}

static PyObject*
PyCosmoObject_Dl_vec1(struct PyCosmoObject* self, PyObject* args) {
    PyObject* zminObj=NULL, *resObj=NULL;;
    double *zmin, zmax, *res;
    npy_intp n, i;

    if (!PyArg_ParseTuple(args, (char*)"Od", &zminObj, &zmax)) {
        return NULL;
    }

    n = PyArray_SIZE(zminObj);
    zmin = (double* )PyArray_DATA(zminObj);

    resObj = PyArray_ZEROS(1, &n, NPY_FLOAT64, 0);
    res = (double* )PyArray_DATA(resObj);

    for (i=0; i<n; i++) {
        res[i] = Dl(self->cosmo, zmin[i], zmax); 
    }

    return resObj;

}

static PyObject*
PyCosmoObject_Dl_vec2(struct PyCosmoObject* self, PyObject* args) {
    PyObject* zmaxObj=NULL, *resObj=NULL;;
    double zmin, *zmax, *res;
    npy_intp n, i;

    if (!PyArg_ParseTuple(args, (char*)"dO", &zmin, &zmaxObj)) {
        return NULL;
    }

    n = PyArray_SIZE(zmaxObj);
    zmax = (double* )PyArray_DATA(zmaxObj);

    resObj = PyArray_ZEROS(1, &n, NPY_FLOAT64, 0);
    res = (double* )PyArray_DATA(resObj);

    for (i=0; i<n; i++) {
        res[i] = Dl(self->cosmo, zmin, zmax[i]); 
    }

    return resObj;
}

static PyObject*
PyCosmoObject_Dl_2vec(struct PyCosmoObject* self, PyObject* args) {
    PyObject* zmaxObj, *zminObj=NULL, *resObj=NULL;
    double *zmin, *zmax, *res;
    npy_intp n, i;

    if (!PyArg_ParseTuple(args, (char*)"OO", &zminObj, &zmaxObj)) {
        return NULL;
    }

    n = PyArray_SIZE(zminObj);
    zmin = (double* )PyArray_DATA(zminObj);
    zmax = (double* )PyArray_DATA(zmaxObj);

    resObj = PyArray_ZEROS(1, &n, NPY_FLOAT64, 0);
    res = (double* )PyArray_DATA(resObj);

    for (i=0; i<n; i++) {
        res[i] = Dl(self->cosmo, zmin[i], zmax[i]); 
    }

    return resObj;
}

// Comoving volume element and vectorization
static PyObject*
PyCosmoObject_dV(struct PyCosmoObject* self, PyObject* args) {
    double z;
    double dv;

    if (!PyArg_ParseTuple(args, (char*)"d", &z)) {
        return NULL;
    }

    dv = dV(self->cosmo, z);
    return PyFloat_FromDouble(dv);

}

static PyObject*
PyCosmoObject_dV_vec(struct PyCosmoObject* self, PyObject* args) {
    PyObject* zObj=NULL, *resObj=NULL;;
    double *z, *res;
    npy_intp n, i;

    if (!PyArg_ParseTuple(args, (char*)"O", &zObj)) {
        return NULL;
    }

    n = PyArray_SIZE(zObj);
    z = (double* )PyArray_DATA(zObj);

    resObj = PyArray_ZEROS(1, &n, NPY_FLOAT64, 0);
    res = (double* )PyArray_DATA(resObj);

    for (i=0; i<n; i++) {
        res[i] = dV(self->cosmo, z[i]); 
    }

    return resObj;

}

// Comoving volume between zmin and zmax
static PyObject*
PyCosmoObject_V(struct PyCosmoObject* self, PyObject* args) {
    double zmin, zmax;
    double v;

    if (!PyArg_ParseTuple(args, (char*)"dd", &zmin, &zmax)) {
        return NULL;
    }

    v = V(self->cosmo, zmin, zmax);
    return PyFloat_FromDouble(v);

}



// Inverse critical density
static PyObject*
PyCosmoObject_scinv(struct PyCosmoObject* self, PyObject* args) {
    double zl, zs;
    double d;

    if (!PyArg_ParseTuple(args, (char*)"dd", &zl, &zs)) {
        return NULL;
    }

    d = scinv(self->cosmo, zl, zs);
    return PyFloat_FromDouble(d);

}

static PyObject*
PyCosmoObject_scinv_vec1(struct PyCosmoObject* self, PyObject* args) {
    PyObject* zlObj=NULL, *resObj=NULL;;
    double *zl, zs, *res;
    npy_intp n, i;

    if (!PyArg_ParseTuple(args, (char*)"Od", &zlObj, &zs)) {
        return NULL;
    }

    n = PyArray_SIZE(zlObj);
    zl = (double* )PyArray_DATA(zlObj);

    resObj = PyArray_ZEROS(1, &n, NPY_FLOAT64, 0);
    res = (double* )PyArray_DATA(resObj);

    for (i=0; i<n; i++) {
        res[i] = scinv(self->cosmo, zl[i], zs); 
    }

    return resObj;

}

static PyObject*
PyCosmoObject_scinv_vec2(struct PyCosmoObject* self, PyObject* args) {
    PyObject* zsObj=NULL, *resObj=NULL;;
    double zl, *zs, *res;
    npy_intp n, i;

    if (!PyArg_ParseTuple(args, (char*)"dO", &zl, &zsObj)) {
        return NULL;
    }

    n = PyArray_SIZE(zsObj);
    zs = (double* )PyArray_DATA(zsObj);

    resObj = PyArray_ZEROS(1, &n, NPY_FLOAT64, 0);
    res = (double* )PyArray_DATA(resObj);

    for (i=0; i<n; i++) {
        res[i] = scinv(self->cosmo, zl, zs[i]); 
    }

    return resObj;
}

static PyObject*
PyCosmoObject_scinv_2vec(struct PyCosmoObject* self, PyObject* args) {
    PyObject* zsObj, *zlObj=NULL, *resObj=NULL;
    double *zl, *zs, *res;
    npy_intp n, i;

    if (!PyArg_ParseTuple(args, (char*)"OO", &zlObj, &zsObj)) {
        return NULL;
    }

    n = PyArray_SIZE(zlObj);
    zl = (double* )PyArray_DATA(zlObj);
    zs = (double* )PyArray_DATA(zsObj);

    resObj = PyArray_ZEROS(1, &n, NPY_FLOAT64, 0);
    res = (double* )PyArray_DATA(resObj);

    for (i=0; i<n; i++) {
        res[i] = scinv(self->cosmo, zl[i], zs[i]); 
    }

    return resObj;
}




static PyMethodDef PyCosmoObject_methods[] = {
    {"DH",          (PyCFunction)PyCosmoObject_DH,          METH_VARARGS, "DH\n\nGet the Hubble distance"},
    {"flat",          (PyCFunction)PyCosmoObject_flat,          METH_VARARGS, "flat\n\nReturn if universe if flat"},
    {"omega_m",          (PyCFunction)PyCosmoObject_omega_m,          METH_VARARGS, "omega_m\n\nGet omega matter"},
    {"omega_l",          (PyCFunction)PyCosmoObject_omega_l,          METH_VARARGS, "omega_m\n\nGet omega lambda"},
    {"omega_k",          (PyCFunction)PyCosmoObject_omega_k,          METH_VARARGS, "omega_m\n\nGet omega curvature"},
    {"ez_inverse",          (PyCFunction)PyCosmoObject_ez_inverse,          METH_VARARGS, "ez_inverse(z)\n\nGet 1/E(z)"},
    {"ez_inverse_vec",          (PyCFunction)PyCosmoObject_ez_inverse_vec,          METH_VARARGS, "ez_inverse_vec(z)\n\nGet 1/E(z) for z an array"},
    {"ez_inverse_integral", (PyCFunction)PyCosmoObject_ez_inverse_integral, METH_VARARGS, "ez_inverse_integral(zmin, zmax)\n\nGet integral of 1/E(z) from zmin to zmax"},
    {"Dc",               (PyCFunction)PyCosmoObject_Dc,               METH_VARARGS, "Dc(zmin,zmax)\n\nComoving distance between zmin and zmax"},
    {"Dc_vec1",          (PyCFunction)PyCosmoObject_Dc_vec1,          METH_VARARGS, "Dc_vec1(zmin,zmax)\n\nComoving distance between zmin(array) and zmax"},
    {"Dc_vec2",          (PyCFunction)PyCosmoObject_Dc_vec2,          METH_VARARGS, "Dc_vec2(zmin,zmax)\n\nComoving distance between zmin and zmax(array)"},
    {"Dc_2vec",          (PyCFunction)PyCosmoObject_Dc_2vec,          METH_VARARGS, "Dc_2vec(zmin,zmax)\n\nComoving distance between zmin and zmax both arrays"},
    {"Dm",              (PyCFunction)PyCosmoObject_Dm,              METH_VARARGS, "Dm(zmin,zmax)\n\nTransverse comoving distance between zmin and zmax"},
    {"Dm_vec1",         (PyCFunction)PyCosmoObject_Dm_vec1,         METH_VARARGS, "Dm_vec1(zmin,zmax)\n\nTransverse Comoving distance between zmin(array) and zmax"},
    {"Dm_vec2",         (PyCFunction)PyCosmoObject_Dm_vec2,         METH_VARARGS, "Dm_vec2(zmin,zmax)\n\nTransverse Comoving distance between zmin and zmax(array)"},
    {"Dm_2vec",         (PyCFunction)PyCosmoObject_Dm_2vec,         METH_VARARGS, "Dm_2vec(zmin,zmax)\n\nTransverse Comoving distance between zmin and zmax both arrays"},
    {"Da",             (PyCFunction)PyCosmoObject_Da,             METH_VARARGS, "Da(zmin,zmax)\n\nAngular diameter distance distance between zmin and zmax"},
    {"Da_vec1",        (PyCFunction)PyCosmoObject_Da_vec1,        METH_VARARGS, "Da_vec1(zmin,zmax)\n\nAngular diameter distance distance between zmin(array) and zmax"},
    {"Da_vec2",        (PyCFunction)PyCosmoObject_Da_vec2,        METH_VARARGS, "Da_vec2(zmin,zmax)\n\nAngular diameter distance distance between zmin and zmax(array)"},
    {"Da_2vec",        (PyCFunction)PyCosmoObject_Da_2vec,        METH_VARARGS, "Da_2vec(zmin,zmax)\n\nAngular diameter distance distance between zmin and zmax both arrays"},
    {"Dl",             (PyCFunction)PyCosmoObject_Dl,             METH_VARARGS, "Dl(zmin,zmax)\n\nLuminosity distance distance between zmin and zmax"},
    {"Dl_vec1",        (PyCFunction)PyCosmoObject_Dl_vec1,        METH_VARARGS, "Dl_vec1(zmin,zmax)\n\nLuminosity distance distance between zmin(array) and zmax"},
    {"Dl_vec2",        (PyCFunction)PyCosmoObject_Dl_vec2,        METH_VARARGS, "Dl_vec2(zmin,zmax)\n\nLuminosity distance distance between zmin and zmax(array)"},
    {"Dl_2vec",        (PyCFunction)PyCosmoObject_Dl_2vec,        METH_VARARGS, "Dl_2vec(zmin,zmax)\n\nLuminosity distance distance between zmin and zmax both arrays"},
    {"dV",                  (PyCFunction)PyCosmoObject_dV,                  METH_VARARGS, "dV(z)\n\nComoving volume element at redshift z"},
    {"dV_vec",              (PyCFunction)PyCosmoObject_dV_vec,              METH_VARARGS, "dV(z)\n\nComoving volume element at redshift z(array)"},
    {"V",                   (PyCFunction)PyCosmoObject_V,                   METH_VARARGS, "V(z)\n\nComoving volume between zmin and zmax"},
    {"scinv",               (PyCFunction)PyCosmoObject_scinv,               METH_VARARGS, "scinv(zl,zs)\n\nInverse critical density distance between zl and zs"},
    {"scinv_vec1",          (PyCFunction)PyCosmoObject_scinv_vec1,          METH_VARARGS, "scinv_vec1(zl,zs)\n\nInverse critical density distance between zl(array) and zs"},
    {"scinv_vec2",          (PyCFunction)PyCosmoObject_scinv_vec2,          METH_VARARGS, "scinv_vec2(zl,zs)\n\nInverse critical density distance between zl and zs(array)"},
    {"scinv_2vec",          (PyCFunction)PyCosmoObject_scinv_2vec,          METH_VARARGS, "scinv_2vec(zl,zs)\n\nInverse critical density distance between zl and zs both arrays"},

    {NULL}  /* Sentinel */
};






static PyTypeObject PyCosmoType = {
#if PY_MAJOR_VERSION >= 3
    PyVarObject_HEAD_INIT(NULL, 0)
#else
    PyObject_HEAD_INIT(NULL)
    0,                         /*ob_size*/
#endif
    "_cosmolib.cosmo",             /*tp_name*/
    sizeof(struct PyCosmoObject), /*tp_basicsize*/
    0,                         /*tp_itemsize*/
    (destructor)PyCosmoObject_dealloc, /*tp_dealloc*/
    0,                         /*tp_print*/
    0,                         /*tp_getattr*/
    0,                         /*tp_setattr*/
    0,                         /*tp_compare*/
    //0,                         /*tp_repr*/
    (reprfunc)PyCosmoObject_repr,                         /*tp_repr*/
    0,                         /*tp_as_number*/
    0,                         /*tp_as_sequence*/
    0,                         /*tp_as_mapping*/
    0,                         /*tp_hash */
    0,                         /*tp_call*/
    0,                         /*tp_str*/
    0,                         /*tp_getattro*/
    0,                         /*tp_setattro*/
    0,                         /*tp_as_buffer*/
    Py_TPFLAGS_DEFAULT | Py_TPFLAGS_BASETYPE, /*tp_flags*/
    "Cosmology Class",           /* tp_doc */
    0,                     /* tp_traverse */
    0,                     /* tp_clear */
    0,                     /* tp_richcompare */
    0,                     /* tp_weaklistoffset */
    0,                     /* tp_iter */
    0,                     /* tp_iternext */
    PyCosmoObject_methods,             /* tp_methods */
    0,             /* tp_members */
    0,                         /* tp_getset */
    0,                         /* tp_base */
    0,                         /* tp_dict */
    0,                         /* tp_descr_get */
    0,                         /* tp_descr_set */
    0,                         /* tp_dictoffset */
    //0,     /* tp_init */
    (initproc)PyCosmoObject_init,      /* tp_init */
    0,                         /* tp_alloc */
    //PyCosmoObject_new,                 /* tp_new */
    PyType_GenericNew,                 /* tp_new */
};


static PyMethodDef cosmotype_methods[] = {
    {NULL}  /* Sentinel */
};


#if PY_MAJOR_VERSION >= 3
    static struct PyModuleDef moduledef = {
        PyModuleDef_HEAD_INIT,
        "_cosmolib",      /* m_name */
        "Define cosmo type and methods ",  /* m_doc */
        -1,                  /* m_size */
        cosmotype_methods,    /* m_methods */
        NULL,                /* m_reload */
        NULL,                /* m_traverse */
        NULL,                /* m_clear */
        NULL,                /* m_free */
    };
#endif


#ifndef PyMODINIT_FUNC  /* declarations for DLL import/export */
#define PyMODINIT_FUNC void
#endif
PyMODINIT_FUNC
#if PY_MAJOR_VERSION >= 3
PyInit__cosmolib(void) 
#else
init_cosmolib(void) 
#endif
{
    PyObject* m;

    PyCosmoType.tp_new = PyType_GenericNew;

#if PY_MAJOR_VERSION >= 3
    if (PyType_Ready(&PyCosmoType) < 0) {
        return NULL;
    }
    m = PyModule_Create(&moduledef);
    if (m==NULL) {
        return NULL;
    }

#else

    if (PyType_Ready(&PyCosmoType) < 0)
        return;

    m = Py_InitModule3("_cosmolib", cosmotype_methods, "Define cosmo type and methods.");

    if (m==NULL) {
        return;
    }
#endif

    Py_INCREF(&PyCosmoType);
    PyModule_AddObject(m, "cosmo", (PyObject *)&PyCosmoType);

    import_array();


#if PY_MAJOR_VERSION >= 3
    return m;
#endif
}
