#include <math.h>
#include <stdlib.h>
#include "cosmolib.h"


struct cosmo* cosmo_new(
        double DH, 
        int flat,
        double omega_m,
        double omega_l,
        double omega_k) {

    struct cosmo* c;
    c=(struct cosmo* ) calloc(1,sizeof(struct cosmo));

    if (c == NULL) {
        return NULL;
    }

    c->DH=DH;
    c->flat=flat;
    c->omega_m=omega_m;
    c->omega_l=omega_l;
    c->omega_k=omega_k;

    c->tcfac = 0;
    if (c->flat != 1) {
        if (c->omega_k > 0) {
            c->tcfac = sqrt(c->omega_k)/c->DH;
        } else {
            c->tcfac = sqrt(-c->omega_k)/c->DH;
        }
    }

    gauleg(-1.0,1.0, NPTS,  c->x,  c->w);
    gauleg(-1.0,1.0, VNPTS, c->vx, c->vw);

    return c;
}


/* comoving distance in Mpc */
double Dc(struct cosmo* c, double zmin, double zmax) {
    return c->DH*ez_inverse_integral(c, zmin, zmax);
}


// transverse comoving distance
double Dm(struct cosmo* c, double zmin, double zmax) {

    double d;

    d = Dc(c, zmin, zmax);

    if (!c->flat) {
        if (c->omega_k > 0) {
            d= sinh(d*c->tcfac)/c->tcfac;
        } else {
            d= sin(d*c->tcfac)/c->tcfac;
        }
    }
    return d;
}



// angular diameter distances
double Da(struct cosmo* c, double zmin, double zmax) {
    double d;
    d = Dm(c, zmin, zmax);
    d /= (1.+zmax);
    return d;
}




// luminosity distances
double Dl(struct cosmo* c, double zmin, double zmax) {
    double d;
    d = Dm(c, zmin, zmax);
    d *= (1.+zmax);
    return d;
}

// comoving volume element
double dV(struct cosmo* c, double z) {
    double da, ezinv, oneplusz;
    double dv;

    oneplusz = 1.+z;

    da = Da(c, 0.0, z);
    ezinv = ez_inverse(c, z);
    dv = c->DH*da*da*ezinv*oneplusz*oneplusz;

    return dv;
}

// comoving volume between zmin and zmax
double V(struct cosmo* c, double zmin, double zmax) {
    int i;
    double f1,f2,z;
    double dv;
    double v=0;

    f1 = (zmax-zmin)/2.;
    f2 = (zmax+zmin)/2.;

    for (i=0; i<VNPTS; i++) {
        z = c->vx[i]*f1 + f2;
        dv = dV(c, z);
        v += f1*dv*c->vw[i];
    }

    return v*4.*M_PI;

}


// inverse critical density for lensing
double scinv(struct cosmo* c, double zl, double zs) {
    double dl, ds, dls;

    if (zs <= zl) {
        return 0.0;
    }

    dl = Da(c, 0.0, zl);
    ds = Da(c, 0.0, zs);
    dls = Da(c, zl, zs);
    return dls*dl/ds*FOUR_PI_G_OVER_C_SQUARED;
}



double ez_inverse(struct cosmo* c, double z) {
    double oneplusz, oneplusz2;
    double ezi;

    oneplusz = 1.+z;
    if (c->flat) {
        ezi = c->omega_m*oneplusz*oneplusz*oneplusz + c->omega_l;
    } else {
        oneplusz2 = oneplusz*oneplusz;
        ezi = c->omega_m*oneplusz2*oneplusz + c->omega_k*oneplusz2 + c->omega_l;
    }
    ezi = sqrt(1.0/ezi);
    return ezi;
}


double ez_inverse_integral(struct cosmo* c, double zmin, double zmax) {
    int i;
    double f1, f2, z, ezinv_int=0, ezinv;

    f1 = (zmax-zmin)/2.;
    f2 = (zmax+zmin)/2.;

    ezinv_int = 0.0;

    for (i=0;i<NPTS;i++) {
        z = c->x[i]*f1 + f2;

        ezinv = ez_inverse(c, z);
        ezinv_int += f1*ezinv*c->w[i];
    }

    return ezinv_int;

}

void gauleg(double x1, double x2, int npts, double* x, double* w) {
	int i, j, m;
	double xm, xl, z1, z, p1, p2, p3, pp=0, EPS, abszdiff;

	EPS = 4.e-11;

	m = (npts + 1)/2;

	xm = (x1 + x2)/2.0;
	xl = (x2 - x1)/2.0;
	z1 = 0.0;

	for (i=1; i<= m; ++i) 
	{

		z=cos( M_PI*(i-0.25)/(npts+.5) );

		// always refine at least once: the derivative pp is needed below
		do
		{
			p1 = 1.0;
			p2 = 0.0;
			for (j=1; j <= npts;++j)
			{
				p3 = p2;
				p2 = p1;
				p1 = ( (2.0*j - 1.0)*z*p2 - (j-1.0)*p3 )/j;
			}
			pp = npts*(z*p1 - p2)/(z*z -1.);
			z1=z;
			z=z1 - p1/pp;

			abszdiff = fabs(z-z1);

		} while (abszdiff > EPS);

		x[i-1] = xm - xl*z;
		x[npts+1-i-1] = xm + xl*z;
		w[i-1] = 2.0*xl/( (1.-z*z)*pp*pp );
		w[npts+1-i-1] = w[i-1];


	}

}
