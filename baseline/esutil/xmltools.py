
try:
    from xml.etree import cElementTree as ElementTree
    have_element_tree = True
except ImportError:
    have_element_tree = False


# calling example
def testxml():
    configdict = xml2dict('config.xml')

    # you can access the data as a dictionary
    configdict['settings']['color'] = 'red'

    # or you can access it like object attributes
    configdict.settings.color = 'red'

    # just return the root
    # can also do dict2xml(configdict, filename_or_obj)
    root = dict2xml(configdict)

    # could also have written to a file with converter above
    tree = ElementTree.ElementTree(root)
    tree.write('config.new.xml')


class XmlDictObject(dict):
    """
    Adds object like functionality to the standard dictionary.
    """

    def __init__(self, initdict=None):
        if initdict is None:
            initdict = {}
        dict.__init__(self, initdict)

    def __getattr__(self, item):
        return self.__getitem__(item)

    def __setattr__(self, item, value):
        self.__setitem__(item, value)

    def __str__(self):
        if '_text' in self:
            return self.__getitem__('_text')
        else:
            return ''

    @staticmethod
    def Wrap(x):
        """
        Static method to wrap a dictionary recursively as an XmlDictObject
        """

        if isinstance(x, dict):
            return XmlDictObject((k, XmlDictObject.Wrap(v)) for (k, v) in list(x.items()))  # noqa
        elif isinstance(x, list):
            return [XmlDictObject.Wrap(v) for v in x]
        else:
            return x

    @staticmethod
    def _UnWrap(x):
        if isinstance(x, dict):
            return dict((k, XmlDictObject._UnWrap(v)) for (k, v) in list(x.items()))  # noqa
        elif isinstance(x, list):
            return [XmlDictObject._UnWrap(v) for v in x]
        else:
            return x

    def UnWrap(self):
        """
        Recursively converts an XmlDictObject to a standard dictionary and
        returns the result.
        """

        return XmlDictObject._UnWrap(self)


def xml2dict(root, dictclass=XmlDictObject, seproot=False, noroot=False):
    """

    d=xml2dict(element or filename, dictclass=XmlDictObject,
               noroot=False, seproot=False)

    Converts an XML file or ElementTree Element to a dictionary

    If noroot=True then the root tag is not included in the dictionary and
        xmldict[roottag]
    is returned.

    If seproot=True then the root tag is not included in the dictionary, and
    instead the tuple
        (xmldict[roottag], roottag)
    is returned.  The name of the roottag is lost in this case.
    """

    if not have_element_tree:
        raise ImportError("Neither cElementTree or ElementTree could "
                          "be imported")

    # If a string is passed in, try to open it as a file
    if isinstance(root, str):
        root = ElementTree.parse(root).getroot()
    elif not isinstance(root, ElementTree.Element):
        raise TypeError('Expected ElementTree.Element or file path string')

    xmldict = dictclass({root.tag: _xml2dict_recurse(root, dictclass)})

    keys = list(xmldict.keys())
    roottag = keys[0]
    if seproot:
        return xmldict[roottag], roottag
    elif noroot:
        return xmldict[roottag]
    else:
        return xmldict


def _xml2dict_recurse(node, dictclass):
    nodedict = dictclass()

    if len(list(node.items())) > 0:
        # if we have attributes, set them
        nodedict.update(dict(list(node.items())))

    for child in node:
        # recursively add the element's children
        newitem = _xml2dict_recurse(child, dictclass)
        if child.tag in nodedict:
            # found duplicate tag, force a list
            if isinstance(nodedict[child.tag], list):
                # append to existing list
                nodedict[child.tag].append(newitem)
            else:
                # convert to list
                nodedict[child.tag] = [nodedict[child.tag], newitem]
        else:
            # only one, directly set the dictionary
            nodedict[child.tag] = newitem

    if node.text is None:
        text = ''
    else:
        text = node.text.strip()

    if len(nodedict) > 0:
        # if we have a dictionary add the text as a dictionary value (if there
        # is any)
        if len(text) > 0:
            nodedict['_text'] = text
    else:
        # if we don't have child nodes or attributes, just set the text
        nodedict = text

    return nodedict


def dict2xml(xmldict, filename_or_obj=None, roottag=None):
    """
    dict2xml(xmldict, [optional filename or obj], roottag=None)

    Converts a dictionary to an XML ElementTree Element and returns the
    result.  Optionally prints to file if input.

    If roottag is not sent, it is assumed that the dictionary is keyed by
    the root, and this roottag is gotten with roottag = xmldict.keys()[0]

    If roottag is sent, the root will be created with that name and the
    input dictionary will be placed under that tag.
    """

    if not have_element_tree:
        raise ImportError("Neither cElementTree or ElementTree could "
                          "be imported")

    if roottag is None:
        keys = list(xmldict.keys())
        roottag = keys[0]
        root = ElementTree.Element(roottag)
        _dict2xml_recurse(root, xmldict[roottag])
    else:
        root = ElementTree.Element(roottag)
        _dict2xml_recurse(root, xmldict)

    xml_indent(root)
    # just return the xml if no file is given
    if filename_or_obj is not None:
        tree = ElementTree.ElementTree(root)
        tree.write(filename_or_obj)
    return root


def xml_indent(elem, level=0):
    """
    xml_indent(element, level=0)
    From http://infix.se/2007/02/06/gentlemen-indent-your-xml
    Input should be an element (perhaps root) of an element tree.
    e.g.
        tree = ElementTree.parse(somefile)
        xml_indent(tree.getroot())
        tree.write(filename)
    """
    i = "\n" + level*"  "
    if len(elem):
        if not elem.text or not elem.text.strip():
            elem.text = i + "  "
        for e in elem:
            xml_indent(e, level+1)
            if not e.tail or not e.tail.strip():
                e.tail = i + "  "
        if not e.tail or not e.tail.strip():
            e.tail = i
    else:
        if level and (not elem.tail or not elem.tail.strip()):
            elem.tail = i


def _dict2xml_recurse(parent, dictitem):
    assert not isinstance(dictitem, list)

    if isinstance(dictitem, dict):
        for (tag, child) in list(dictitem.items()):
            if str(tag) == '_text':
                parent.text = str(child)
            elif isinstance(child, list):
                # iterate through the array and convert
                for listchild in child:
                    elem = ElementTree.Element(tag)
                    parent.append(elem)
                    _dict2xml_recurse(elem, listchild)
            else:
                elem = ElementTree.Element(tag)
                parent.append(elem)
                _dict2xml_recurse(elem, child)
    else:
        parent.text = str(dictitem)
