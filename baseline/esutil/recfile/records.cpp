#include "records.hpp"

/*
   we need this because someone made the import_array macro return a value
   in python 3

   first lesson of C macros:  do not make them use the return statment
*/

#if PY_MAJOR_VERSION >= 3
static int *init_numpy(void) {
    import_array();
    return NULL;
}
#else
static void init_numpy(void) {
    import_array();
}
#endif

// check unicode for python3, string for python2
static int is_python_string(const PyObject* obj)
{
#if PY_MAJOR_VERSION >= 3
    return PyUnicode_Check(obj) || PyBytes_Check(obj);
#else
    return PyUnicode_Check(obj) || PyString_Check(obj);
#endif
}



int myfseeko(FILE *stream, off_t offset, int origin) {
#ifdef _WIN32
    return _fseeki64(stream, offset, origin);
#else
    return fseeko(stream, offset, origin);
#endif
}

// unicode is common to python 2 and 3
static char* get_unicode_as_string(PyObject* obj)
{
    PyObject* tmp=NULL;
    char* strdata=NULL;
    tmp = PyObject_CallMethod(obj,(char*)"encode",NULL);

    strdata = strdup( PyBytes_AsString(tmp) );
    Py_XDECREF(tmp);

    return strdata;
}


static string get_object_as_string(PyObject* obj)
{
    PyObject* format=NULL;
    PyObject* args=NULL;
    string strdata;
    PyObject* tmpobj1=NULL;

    if (PyUnicode_Check(obj)) {

        strdata=get_unicode_as_string(obj);

    } else {

#if PY_MAJOR_VERSION >= 3

        if (PyBytes_Check(obj)) {
            strdata = PyBytes_AsString(obj);
        } else {
            PyObject* tmpobj2=NULL;
            format = Py_BuildValue("s","%s");
            // this is not a string object
            args=PyTuple_New(1);

            PyTuple_SetItem(args,0,obj);
            tmpobj2 = PyUnicode_Format(format, args);
            tmpobj1 = PyObject_CallMethod(tmpobj2,"encode",NULL);

            Py_XDECREF(args);
            Py_XDECREF(tmpobj2);

            strdata = PyBytes_AsString(tmpobj1);
            Py_XDECREF(tmpobj1);
            Py_XDECREF(format);
        }

#else
        // convert to a string as needed
        if (PyString_Check(obj)) {
            strdata = PyString_AsString(obj);
        } else {
            format = Py_BuildValue("s","%s");
            args=PyTuple_New(1);

            PyTuple_SetItem(args,0,obj);
            tmpobj1= PyString_Format(format, args);

            strdata = PyString_AsString(tmpobj1);
            Py_XDECREF(args);
            Py_XDECREF(tmpobj1);
            Py_XDECREF(format);
        }
#endif
    }

    return strdata;
}



Records::Records(
        const char *filename,
		const char* mode,
		PyObject* delimobj, 
		PyObject* dtype,
		long long nrows,
        long offset,
        int bracket_arrays,
        bool padnull,
        bool ignorenull)
{
    init_numpy();

	init_variables();

    mBracketArrays = bracket_arrays;
    mPadNull=padnull;
    mIgnoreNull=ignorenull;

	mMode=mode;

	set_fptr(filename, mMode.c_str());
	process_delim(delimobj);
	set_file_type();

    mFileOffset = offset;

	if (mMode[0] == 'r' || mMode == "w+") {
		if ( (dtype == NULL) || (nrows==-9999) ) {
			throw std::runtime_error("You must send the datatype and number of rows when reading");
		}
		// Open for reading
		mAction=READ;
        if (mMode.size() > 1 && mMode=="r+") {
            mAction |= WRITE;
        } else if (mMode[0]=='w') {
            // both write and read
            mAction |= WRITE;
        }

        goto_offset();

		process_descriptor(dtype);
		process_nrows(nrows);

	} else {
		// Only opened for writing
		mAction=WRITE;
	}

    make_scan_formats(mScanFormats,true);
    make_print_formats(mPrintFormats);

}


Records::~Records() 
{

	// always decref; can be NULL but otherwise points to an input
	// type descriptor and we did an INCREF
	Py_XDECREF(mTypeDescr);
	this->close();

}

void Records::close() 
{
	if (mFptr != NULL) {
		if (mDebug) debugout("Closing file");
		fclose(mFptr);
		mFptr=NULL;
	}
}


void Records::init_variables()
{


    mData=NULL;

	// The type descriptor for each row of the file.  Will decref since we
	// increfed as we made a copy
	mTypeDescr=NULL;

	mFptr=NULL;

	mDelim="";
    mArrayDelim="";

	// must be set later!!
	mAction=READ;
	mFileType = BINARY_FILE;

	mReadAsWhitespace=false;

	mNrows=0;

    mIgnoreNull=false;
    mPadNull=false;
    mBracketArrays=0;
	return;

}

void Records::process_nrows(long long nrows)  
{
	if (mDebug) {cerr<<"nrows = "<<nrows<<endl;fflush(stdout);}
	if (nrows < 1) {
		throw std::runtime_error("Input nrows must be >= 1");
	}
	mNrows = nrows;
}


void Records::ensure_writable(void) 
{
	if (mFptr == NULL) {
		throw std::runtime_error("File is not open");
	}
	if ( (mAction & WRITE) == 0) {
		throw std::runtime_error("File is not open for writing");
	}
}
void Records::ensure_readable(void) 
{
	if (mFptr == NULL) {
		throw std::runtime_error("File is not open");
	}
	if ( (mAction & READ) == 0) {
		throw std::runtime_error("File is not open for reading");
	}
}

void Records::ensure_binary(void) 
{
    if (mFileType != BINARY_FILE) {
		throw std::runtime_error("attempt to read ascii data as binary");
    }
}
void Records::ensure_text(void) 
{
    if (mFileType != ASCII_FILE) {
		throw std::runtime_error("attempt to read binary data as text");
    }
}

void Records::goto_offset(void)
{
    fseek(mFptr, mFileOffset, SEEK_SET);
}

void Records::do_seek(npy_intp seek_distance)  {
	if (seek_distance > 0) {
		if(myfseeko(mFptr, seek_distance, SEEK_CUR) != 0) {
			string err="Error skipping fields";
			throw std::runtime_error(err);
		}
	}
}

void Records::skip_rows(long long current_row, long long row2read) 
{
	long long rows2skip=0;
	if (mFileType == BINARY_FILE) {
		rows2skip = row2read-current_row;
		skip_binary_rows(rows2skip);
	} else {
		if (mReadAsWhitespace) {
			rows2skip = row2read - current_row;// + 1;
		} else {
			rows2skip = row2read - current_row;
		}
		skip_text_rows(rows2skip);
	}
}



void Records::skip_text_rows(long long nskip) 
{
	if (nskip > 0) {
		long long nlines = 0;
		char c;
		while (nlines < nskip) {
			c = fgetc(mFptr);
			if (c == EOF) {
				throw std::runtime_error("Reached EOF prematurely");
			}
			if (c == '\n') {
				nlines++;
			}
		}
	}
}

void Records::skip_binary_rows(long long nskip) 
{
	if (nskip > 0) {
		if (myfseeko(mFptr, mRowSize*nskip, SEEK_CUR) != 0) {
			throw std::runtime_error("Failed to fseek");
		}
	}
}





// read all the elements of a field
void Records::scan_column_values(long long fnum, char* input_buff) 
{

    int skipping=false;
    string tmp;

    char *buff=NULL;

    if (input_buff) {
        skipping=false;
        buff=input_buff;

    } else {
        skipping=true;

        // a buffer big enough for one scan

        long buffsize = mSizes[fnum]/mNel[fnum] + 1;
        tmp.resize(buffsize,'\0');
        buff = &tmp[0];

    }

	int type_num = mTypeNums[fnum];

	for (long long el=0; el<mNel[fnum]; el++) {
		int ret = fscanf(mFptr, mScanFormats[type_num].c_str(), buff);
		if (ret != 1) {
			if (feof(mFptr)) {
                string err="ScanVal: EOF reached unexpectedly reading field: "+mNames[fnum];
                throw std::runtime_error(err);
            }

            int ok=false;

            // for non-whitespace delimited, we can see if the character is the
            // delimiter, meaning we have an empty field.  This doesn't work at
            // the beginning or end of the line though
            if (!mReadAsWhitespace) {
                char c = fgetc(mFptr);
                if (mDelim[0] == c) {
                
                    // we can store nan for missing data if this is a float column
                    if (   type_num == NPY_FLOAT ||
                           type_num == NPY_DOUBLE ||
                           type_num==NPY_LONGDOUBLE ) {

                        string tmp = "nan" + mDelim;
                        ret = sscanf(tmp.c_str(), mScanFormats[type_num].c_str(), buff);

                        if (ret == 1) {
                            ok=true;
                        }
                    }
                } else {
                    cerr<<"character does not match delim: '" << c <<"'\n";
                }
            }

            if (!ok) { 
                string err="ScanVal: Error reading field: "+mNames[fnum];
                throw std::runtime_error(err);
            }


		}
        if (!skipping) {
            buff += mSizes[fnum]/mNel[fnum] ;
        }
	}
}


void Records::read_ascii_bytes(long long colnum, char* buff)  
{

    int skipping=false;
	char c;

    if (!buff) {
        skipping=true;
    }

	// Read the expected number of bytes *per element* as opposed to binary
	int size_per_el = mSizes[colnum]/mNel[colnum];

	// Loop over each element for ascii. Must do this because
	// of the delimters
	for (long long el=0; el<mNel[colnum]; el++) {

		for (long long i=0; i<size_per_el; i++) {
			c=fgetc(mFptr);
			if (c==EOF) {
				string err=
					"EOF reached unexpectedly reading field: "+
					mNames[colnum];
				throw std::runtime_error(err);
			}

            // if NULL, we are skipping this data
            if (!skipping) {
                *buff = c;
                buff++;
            }
		}

		// Read the delimiter or EOL
		c=fgetc(mFptr);

	}
}


// read single entry
void Records::read_from_text_column(long long colnum, char* buff) 
{

	if (mTypeNums[colnum] == NPY_STRING) {
		read_ascii_bytes(colnum, buff);
	} else {
		scan_column_values(colnum, buff);
		// For whitespace we haven't read the delimiter yet
		if (mReadAsWhitespace) {
			fgetc(mFptr);
		}
	}
}

// read single entry
void Records::read_from_binary_column(long long colnum, char* buff) 
{
    int nread = fread(buff, mSizes[colnum], 1, mFptr);
    if (nread != 1) {
        string err="Error reading field: "+mNames[colnum];
        throw std::runtime_error(err);
    }
}

npy_intp Records::get_nrows_to_read(PyObject* rows)
{

    npy_intp nrows = mNrows;
    if (rows != Py_None) {
        nrows = PyArray_SIZE((PyArrayObject *) rows);
    }

    return nrows;
}

npy_intp Records::get_ncols_to_read(PyObject* colnums)
{

    npy_intp ncols = mNfields;
    if (colnums != Py_None) {
        ncols = PyArray_SIZE((PyArrayObject *) colnums);
    }

    return ncols;
}






/*

   subsets of rows and columns

   colnums and rows must be of type npy_int64, and must be unique
   and sorted

*/

PyObject* Records::read_columns(PyObject* arrayobj,
                                PyObject* colnums,
                                PyObject* rows) 

{

    if (mFileType == BINARY_FILE) {
        read_binary_columns(arrayobj, colnums, rows);
    } else {
        read_text_columns(arrayobj, colnums, rows);
    }
    Py_RETURN_NONE;
}


// stop is exclusive
void Records::skip_ascii_col_range(npy_intp start, npy_intp stop) 
{
    for (npy_intp col=start; col<stop; col++) {
        read_from_text_column(col, NULL);
    }
}

void Records::read_text_columns(PyObject* arrayobj,
                                     PyObject* colnums,
                                     PyObject* rows) 
{
    bool doall_rows=false, doall_cols=false;
	npy_intp
        current_row=0, current_col=0,
        row2read=0, col2read=0;

    ensure_readable();
    ensure_text();

    npy_intp ncols2read = get_ncols_to_read(colnums);
    npy_intp nrows2read = get_nrows_to_read(rows);

	if (nrows2read != mNrows) {
        doall_rows=false;
    } else {
        doall_rows=true;
    }
	if (ncols2read != mNfields) {
        doall_cols=false;
    } else {
        doall_cols=true;
    }

    //cerr<<"doall rows: "<<doall_rows<<" doall cols: "<<doall_cols<<"\n";

    // always begin at the user's requested file offset
    goto_offset();

    for (npy_intp irow=0; irow<nrows2read; irow++) {
        char *ptr= (char *) PyArray_GETPTR1((PyArrayObject *) arrayobj, irow);

        if (doall_rows) {
            row2read = irow;
        } else {
            row2read = *(npy_int64 *) PyArray_GETPTR1((PyArrayObject *) rows, irow);
            if (row2read > current_row) {
                skip_rows(current_row, row2read);
                current_row=row2read;
            } 
        }

        current_col=0;

        for (npy_intp icol=0; icol<ncols2read; icol++) {
            if (doall_cols) {
                col2read=icol;
            } else {
                col2read = *(npy_int64 *) PyArray_GETPTR1((PyArrayObject *) colnums, icol);
            }

            if (col2read > current_col) {
                skip_ascii_col_range(current_col, col2read);
                current_col=col2read;
            } 

            read_from_text_column(col2read, ptr);

            // move the data pointer. Assumes C contiguous within a column

            ptr += mSizes[col2read];

            // move the current col to the next one to indicate we have moved
            // in the file passed the requested column
            current_col++;

        }

        // skip the rest of the row if needed
        if (current_col < mNfields) {
            skip_ascii_col_range(current_col, mNfields);
        }

        current_row++ ;
    }

}



void Records::read_binary_columns(PyObject* arrayobj,
                                  PyObject* colnums,
                                  PyObject* rows) 
{
    bool doall_rows=false;
	npy_intp
        current_row=0, current_col=0,
        current_offset=0,
        row2read=0, col2read=0,
        seek_distance=0;
    long long colsize=0;

    ensure_readable();
    ensure_binary();

    npy_intp ncols2read = get_ncols_to_read(colnums);
    npy_intp nrows2read = get_nrows_to_read(rows);

	if (nrows2read != mNrows) {
        doall_rows=false;
    } else {
        doall_rows=true;
    }

    // always begin at the user's requested file offset
    goto_offset();

    for (npy_intp irow=0; irow<nrows2read; irow++) {
        char *ptr= (char *) PyArray_GETPTR1((PyArrayObject *) arrayobj, irow);

        if (doall_rows) {
            row2read = irow;
        } else {
            row2read = *(npy_int64 *) PyArray_GETPTR1((PyArrayObject *) rows, irow);
        }

        //fprintf(stderr,"current_row: %ld row2read: %ld\n", current_row, row2read);

		if (row2read > current_row) {
			skip_rows(current_row, row2read);
			current_row=row2read;
		} 

        current_col=0;
        current_offset=0; // offset into this row

        for (npy_intp icol=0; icol<ncols2read; icol++) {
            //fprintf(stderr,"col2read: %ld\n", col2read);
            col2read = *(npy_int64 *) PyArray_GETPTR1((PyArrayObject *) colnums, icol);
            colsize=mSizes[col2read];

            if (col2read > current_col) {
                seek_distance = mOffsets[col2read] - current_offset;
                do_seek(seek_distance);

                current_col=col2read;
                current_offset += seek_distance;
            } 

            read_from_binary_column(col2read, ptr);

            // account for offset after read
            current_offset += colsize;

            // move the data pointer also. Assumes C contiguous within
            // a columns
            ptr += colsize;

            current_col++;
        }

        // skip the rest of the row if needed
        if (current_offset < mRowSize) {
            seek_distance = mRowSize - current_offset;
            do_seek(seek_distance);
        }

        current_row++ ;
    }

}

npy_intp Records::process_slice(npy_intp row1, npy_intp row2, npy_intp step) 
{
	// Just do some error checking on the requested rows
	stringstream serr;
	if (row1 < 0) {
		serr<<"Requested first row < 0";
		throw std::runtime_error(serr.str());
	}
	if (row2 > mNrows) {
		serr<<"Requested slice beyond delcared size "<<mNrows;
		throw std::runtime_error(serr.str());
	}

	if (step <= 0) {
		serr<<"Requested step must be > 0";
		throw std::runtime_error(serr.str());
	}

	// we use python slicing rules:  [n1:n2:step] really means  from n1 to n2-1
	// so the number of rows to read is simply (n2-n1)/step + (n2-21) % step
	npy_intp rdiff = (row2-row1);

	npy_intp extra = 0;
	if ((rdiff % step) != 0) {
		extra = 1;
	}
	npy_intp nrows = rdiff/step + extra;


	if (mDebug) cerr<<"slice: ("<<row1<<", "<<row2<<", "<<step<<") nrows: "<<nrows<<"/"<<mNrows<<"\n";
	return nrows;
}



/*

   read all columns in a row slice

   binary only; there is only one text reader for
   all reading types

   the input array must have the right size
*/


PyObject* Records::read_binary_slice(PyObject* arrayobj,
                                     long long row1,
                                     long long row2,
                                     long long step) 
{

    ensure_readable();
    ensure_binary();

	npy_intp nrows2read = process_slice(row1, row2, step);

    // always begin at the user's requested file offset
    goto_offset();

    if (row1 > 0) {
		skip_binary_rows(row1);
    }

    if (step==1) {
        // we can use a single fread
        void *ptr = PyArray_GETPTR1((PyArrayObject *) arrayobj, 0);

        npy_intp nread = (npy_intp) fread(ptr, mRowSize, nrows2read, mFptr);
        if (nread != nrows2read) {
            throw std::runtime_error("Error reading slice");
        } 

    } else {

        for (npy_intp irow=0; irow<nrows2read; irow++) {

            void *ptr = PyArray_GETPTR1((PyArrayObject *) arrayobj, irow);

            size_t nread = fread(ptr, mRowSize, 1, mFptr);
            if (nread != 1) {
                throw std::runtime_error("Failed to read row data");
            }

            skip_binary_rows(step-1);

        }
    }


    Py_RETURN_NONE;
}





/*


PyObject* Records::ReadSlice(long long row1, long long row2, long long step)  
{
    ensure_readable();

    // always start at the users requested offset
    goto_offset();

	// juse some error checking and return implied length
	mNrowsToRead = ProcessSlice(row1, row2, step);

	// slice we read all fields, so send Py_None
	ProcessFieldsToRead(Py_None);
	CreateOutputArray();

	ReadPrepare();


	if (mReadWholeFileBinary) {
		ReadAllAsBinary();
	} else {
		ReadRowsSlice(row1, step);
	}

	return (PyObject* ) mReturnObject;
}

PyObject* Records::Read(
		PyObject* rows,
		PyObject* fields) 
{
    ensure_readable();

    goto_offset();

	ProcessRowsToRead(rows);
	ProcessFieldsToRead(fields);
	CreateOutputArray();
	ReadPrepare();

	ReadFromFile();

	return (PyObject* ) mReturnObject;
}

void Records::ReadPrepare()
{
    mReadWholeFileBinary = false;
    mReadWholeRowBinary = false;

	if (mFileType == BINARY_FILE 
			&& mNrowsToRead == mNrows 
			&& mKeepNfields == mNfields) {

		mReadWholeFileBinary = true;
	} else if (mFileType == BINARY_FILE
			&& mKeepNfields == mNfields ) {

		mReadWholeRowBinary = true;
	} else if (mFileType == ASCII_FILE) {
		//make_scan_formats(true);
	}
}

void Records::ReadFromFile()
{
	if (mReadWholeFileBinary) {
		ReadAllAsBinary();
	} else {
		ReadRows();
	}
}

void Records::ReadAllAsBinary()
{
	if (mDebug) debugout("Reading all in one big fread()");
	int nread = fread(mData, mRowSize, mNrows, mFptr);
	if (nread != mNrows) {
		throw std::runtime_error("Error reading entire file as binary");
	} 
}


// need to use long long
void Records::ReadRows()
{

	// Will hold row data if we are skipping rows (stored as array)
	npy_intp* rows=NULL;
	npy_intp current_row=0;
	npy_intp row2read=0;

	if (mNrowsToRead != mNrows) {
		// No data created or copied here
		rows = (npy_intp*) PyArray_DATA(mRowsToRead);
	}
	if (mDebug) debugout("Reading rows");

	// Loop over the rows to read, which could be a subset of the 
	// total number of rows in the file.
	for (npy_intp irow=0;  irow<mNrowsToRead; irow++) {
		if (mNrowsToRead != mNrows) {
			row2read=rows[irow];
		} else {
			row2read=irow;
		}

		// Skip rows?
		if (row2read > current_row) {
			skip_rows(current_row, row2read);
			current_row=row2read;
		} 

		ReadRow();
		current_row++;
	}


}

void Records::ReadRowsSlice(npy_intp row1, npy_intp step) 
{

	if (mDebug) debugout("Reading rows by slice");

	if (step == 1 && mFileType == BINARY_FILE) {

		// We can just read a big chunk
		if (row1 > 0) {
			skip_rows(0, row1);
		}

		npy_intp nread = fread(mData, mRowSize, mNrowsToRead, mFptr);
		if (nread != mNrowsToRead) {
			throw std::runtime_error("Error reading slice");
		} 

	} else {

		npy_intp row2read = row1;
		npy_intp current_row = 0;

		for (npy_intp irow=0;  irow<mNrowsToRead; irow++) {

			// Skip rows
			if (row2read > current_row) {
				skip_rows(current_row, row2read);
				current_row=row2read;
			} 

			ReadRow();

			current_row++;
			row2read += step;
		}
	}

}




void Records::ReadRow()
{
	if (mReadWholeRowBinary) {
		// We can read a whole line if reading all fields
		ReadWholeRowBinary();
		
	} else if (mFileType == BINARY_FILE) {
		// Reading particular fields of a binary file.
		ReadBinaryFields();
	
	} else {
		// Reading particular fields
		ReadAsciiFields();
	}
}

void Records::ReadBinaryFields()
{
	// use messy code here for a significant speedup
	npy_intp 
		last_offset=0, last_fsize=0, seek_distance=0, offset=0;

	for (npy_intp fnum=0; fnum<mNfields; fnum++) {
		if (mKeep[fnum]) {
			// How far to we move before we read this data?
			offset  = mOffsets[fnum];
			seek_distance = offset-(last_offset + last_fsize);

			// This could be zero if we didn't skip any fields
			DoSeek(seek_distance);

			// Read the data
			ReadFieldAsBinary(fnum);

			last_offset=offset;
			last_fsize=mSizes[fnum];
		}
	}

	// Do we need to move past any remaining fields?
	seek_distance = mRowSize - (last_offset+last_fsize);
	DoSeek(seek_distance);

}

void Records::DoSeek(npy_intp seek_distance) {
	if (seek_distance > 0) {
		if(myfseeko(mFptr, seek_distance, SEEK_CUR) != 0) {
			string err="Error skipping fields";
			throw std::runtime_error(err);
		}
	}
}

void Records::ReadAsciiFields()
{
	for (npy_intp fnum=0; fnum<mNfields; fnum++) {
		// This program understands when a field is skipped
		ReadFieldAsAscii(fnum);
	}
}




void Records::ReadFieldAsBinary(long long fnum)
{
	// Read the requested number of bytes
	int nread = fread(mData, mSizes[fnum], 1, mFptr);
	if (nread != 1) {
		string err="Error reading field: "+mNames[fnum];
		throw std::runtime_error(err);
	}
	// Move the data pointer
	mData = mData+mSizes[fnum];
}

void Records::ReadFieldAsAscii(long long fnum)
{

	if (mTypeNums[fnum] == NPY_STRING) {
		ReadAsciiBytes(fnum);
	} else {
		ScanVal(fnum);
		// For whitespace we haven't read the delimiter yet
		if (mReadAsWhitespace) {
			//char c = fgetc(mFptr);
			fgetc(mFptr);
		}
	}

	// Move the data pointer if we actually read this to the buffer
	if (mKeep[fnum]) {
		mData = mData+mSizes[fnum];
	}
}

void Records::ReadAsciiBytes(long long fnum)
{
	char c;
	char* buff;
	// If we are skipping this field just read into a different buffer
	if (mKeep[fnum]) {
		buff = mData;
	} else {
		//buff = &mBuffer[0];
		buff = (char *) mBuffer.c_str();
	}

	// Read the expected number of bytes *per element* as opposed to binary
	int size_per_el = mSizes[fnum]/mNel[fnum];

	// Loop over each element for ascii. Must do this because
	// of the delimters
	for (long long el=0; el<mNel[fnum]; el++) {

		for (long long i=0; i<size_per_el; i++) {
			c=fgetc(mFptr);
			if (c==EOF) {
				string err=
					"EOF reached unexpectedly reading field: "+
					mNames[fnum];
				throw std::runtime_error(err);
			}
			*buff = c;
			buff++;
		}

		// Read the delimiter or EOL
		c=fgetc(mFptr);

	}
}

void Records::ScanVal(long long fnum)
{

	char* buff;
	// If we are skipping this field just read into a different buffer
	if (mKeep[fnum]) {
		buff = mData;
	} else {
		//buff = &mBuffer[0];
		buff = (char *) mBuffer.c_str();
	}


	int type_num = mTypeNums[fnum];

	//{cerr<<"  ScanVal with format: "<<mScanFormats[type_num].c_str()<<endl;
	//		fflush(stdout);}
	for (long long el=0; el<mNel[fnum]; el++) {
		int ret = fscanf(mFptr, mScanFormats[type_num].c_str(), buff);
		if (ret != 1) {
			string err="ScanVal: Error reading field: "+mNames[fnum];
			if (feof(mFptr)) {
				err += ": EOF reached unexpectedly";
			}
			else {
				err = + ": Read error";
			}
			throw std::runtime_error(err);
		}
		buff += mSizes[fnum]/mNel[fnum] ;
	}
}

void Records::ReadWholeRowBinary()
{
	int nread = fread(mData, mRowSize, 1, mFptr);
	if (nread != 1) {
		throw std::runtime_error("Failed to read row data");
	}
	mData+=mRowSize;
}




void Records::CreateOutputArray()
{

	// this way we don't worry about freeing
	npy_intp d[1];
	PyArray_Dims shape;

	shape.ptr = d;
	shape.len = 1;


	if (mDebug) debugout("Creating output array");

	shape.ptr[0] = mNrowsToRead;

	if (mDebug) debugout("  Allocating");
	mReturnObject = (PyArrayObject* ) 
		PyArray_Zeros(
				1, 
				shape.ptr, 
				(PyArray_Descr *) mKeepTypeDescr, 
				NPY_FALSE);

	if (mReturnObject==NULL) {
		throw std::runtime_error("Could not allocate array");
	}

	
	// Now the array has been created, and will not be XDECREFEd under
	// any circumstances.  This is so the user can see the state of the
	// array should any errors occur.  Thus we must also keep around the
	// descr.  Se we will add an extra reference so we can decref it later

	Py_INCREF(mKeepTypeDescr);

	// Make a pointer to the data area
	mData = mReturnObject->data;
}


// given a numpy  PyArray_Descr* and a list of field names return a new
// type descriptor containing only the subset

void Records::SubDtype(
		PyObject* indescr, 
		PyObject* subnamesobj,
		PyObject** newdescr,
		vector<long long>& matchids) {

	PyArray_Descr* descr=(PyArray_Descr* ) indescr;
	//vector<string> names;

	// make string vector
	//copy_descr_ordered_names(descr);

	// This makes sure they end up in the original order: important
	// for skipping fields and such
	
	// First deal with a scalar string or list input
	if (PyList_Check(subnamesobj)) {
		ListStringMatch(mNames, subnamesobj, matchids);
	} else if (is_python_string(subnamesobj)) {
		// Must decref
		PyObject* tmplist = PyList_New(0);
		// Makes a copy on append.
		PyList_Append(tmplist, subnamesobj);
		ListStringMatch(mNames, tmplist, matchids);
		Py_XDECREF(tmplist);
	} else {
		throw std::runtime_error("fields keyword must be string or list");
	}
	vector<string> matchnames;
	matchnames.resize(matchids.size());
	for (unsigned long long i=0; i<matchids.size(); i++) {
		//matchnames[i] = names[matchids[i]];
		matchnames[i] = mNames[matchids[i]];
	}

	// Now based on the matches create a new dtype
	*newdescr = ExtractSubDescr(descr, matchnames);

}




// Extract a subset of the fields from a PyArray_Descr and return a new
// descr with that info
PyObject* Records::ExtractSubDescr(
		PyArray_Descr* descr, 
		vector<string>& names)
{

	PyArray_Descr *fdescr=NULL;
	char* title=NULL;
	long long offset;

	PyObject* dlist=PyList_New(0);
	PyArray_Descr* newdescr=NULL;

	if (mDebug) {cerr<<"Extracting sub descr"<<endl;fflush(stdout);}
	for (unsigned long long i=0; i<names.size(); i++) {
		PyObject* item =
			PyDict_GetItemString(descr->fields, names[i].c_str());

		if (item!=NULL) {
			if (!PyArg_ParseTuple(item, "Oi|O", &fdescr, &offset, &title)) {
				if (mDebug) 
				{cerr<<"Field: "<<names[i]<<" not right format"<<endl;}
			} else {

				PyObject* tup = 
					FieldDescriptorAsTuple(fdescr, names[i].c_str());

				// copy is made of tuple
				if (PyList_Append(dlist, tup) != 0) {
					throw std::runtime_error("Could not append to list");
				}
				Py_XDECREF(tup);

			}
		} else {
			if (mDebug) 
			{cerr<<"field: "<<names[i]<<" does not exist. offset->-1"<<endl;}
		}
	}

	// Now convert this list to a descr
	if (mDebug) {cerr<<"Converting list to descr"<<endl;fflush(stdout);}
	if (!PyArray_DescrConverter(dlist, &newdescr)) {
		throw std::runtime_error("data type not understood");
	}
	if (mDebug) {cerr<<"  Done"<<endl;fflush(stdout);};

	return( (PyObject* )newdescr);
}







// Copy some info from a fields["fname"].descr into a tuple
// This will become part of a list of tuples dtype send to the converter
PyObject* Records::FieldDescriptorAsTuple(PyArray_Descr* fdescr, const char* name)
{
	// Use a string stream to convert all the char and possible int
	// elements of a type string
	stringstream typestream (stringstream::in | stringstream::out);
	string typestring;

	long long nel=0, tupsize=0;
	PyObject* shape=NULL;
	if (fdescr->subarray != NULL) {
		// This is a sub-array and requires the tuple to have a
		// length specified Here we are implicitly only allowing
		// subarrays of basic numbers or strings

		typestream << fdescr->subarray->base->byteorder;
		typestream << fdescr->subarray->base->type;
		if (fdescr->subarray->base->type_num == NPY_STRING) {
			typestream << fdescr->subarray->base->elsize;
		}
		nel = fdescr->elsize/fdescr->subarray->base->elsize;

		// Need to incref this because the PyTuple_SetItem will
		// steal a reference
		shape = fdescr->subarray->shape;
		tupsize=3;
	} else {
		typestream << fdescr->byteorder;
		typestream << fdescr->type;
		if (fdescr->type_num == NPY_STRING) {
			typestream << fdescr->elsize;
		}
		nel = 1;
		tupsize=2;
	}

	typestream >> typestring;

	// A copy is made when inserting into the list 
	// so we need to decref this
	PyObject* tup=PyTuple_New(tupsize);

	// In setitems references are stolen, so better to just
	// put the expressions in there than possibly worry later
	// about references
	PyTuple_SetItem(
			tup,
			0,
#if PY_MAJOR_VERSION >= 3
			PyBytes_FromString(name)
#else
			PyString_FromString(name)
#endif
    );
	PyTuple_SetItem(
			tup,
			1,
#if PY_MAJOR_VERSION >= 3
			PyBytes_FromString(typestring.c_str())
#else
			PyString_FromString(typestring.c_str())
#endif
    );

	if (tupsize == 3) {
		PyTuple_SetItem(
				tup,
				2,
				shape);
		Py_XINCREF(shape);

	}

	if (mDebug) {
		cerr<<"("
			<<"'"
			<<get_object_as_string(PyTuple_GetItem(tup,0))<<"'"
			<<", '"
			<<get_object_as_string(PyTuple_GetItem(tup,1))<<"'";
		if (nel > 1) {
			cerr <<", "<<nel;
		}
		cerr <<")"<<endl;
	}



	return(tup);

}


// Must decref this arr no matter what. Use Py_XDECREF in case it
// is NULL
// AHHHHH!!!!  On my macbook core 2 duo, which is 64-bit, intp is 32-bit!!! Can't 
// figure out how to make it use 64-bit
PyObject* Records::Object2IntpArray(PyObject* obj)
{

	// NPY_DEFAULT is currently NPY_CARRAY
	int min_depth=0, max_depth=0, flags=NPY_DEFAULT;
	PyObject* arr=NULL;

	if (obj == NULL || obj == Py_None) {
		return NULL;
	}

	PyArray_Descr* descr=NULL;
	descr = PyArray_DescrNewFromType(NPY_INTP);

	if (descr == NULL) {
		throw std::runtime_error("could not create NPY_INPT descriptor");
	}
	// This will steal a reference to descr, so we don't need to decref
	// descr as long as we decref the array!
	arr = PyArray_FromAny(obj, descr, min_depth, max_depth, flags, NULL);
	if (arr == NULL) {
		throw std::runtime_error("Could not convert rows keyword to an array of type NPY_INTP");
	}
	return arr;
}



void Records::ListStringMatch(
		vector<string> snames,
		PyObject* list, 
		vector<long long>& matchids)
{

	if (mDebug) {cerr<<"Matching fields to subfields"<<endl;fflush(stdout);}
	long long len=SequenceCheck(list);

	matchids.clear();
	if (len <= 0) {
		// Just return all
		matchids.resize(snames.size());
		for (unsigned long long i=0; i<matchids.size(); i++)
		{
			matchids[i] = i;
		}
	} else {
		// Get strings from list.
		vector<string> goodones;
		for (long long i=0; i<len; i++) {
			PyObject* item = PySequence_GetItem(list, i);
			if (!is_python_string(item)) {
				cerr<<"fields["<<i<<"] is not a string; skipping"<<endl;
				fflush(stdout);
			} else {
				string ts = get_object_as_string(item);
				goodones.push_back(ts);
			}
		}
		if (goodones.size() == 0) {
			throw std::runtime_error("None of the requested fields are in string form");
		} else {
			// loop over snames and see which ones match the input list
			// this preserves order, which is important.
			for (unsigned long long i=0; i<snames.size(); i++) {
				string name=snames[i];
				// See if there is a match
				vector<string>::iterator matchel;
				matchel = find(goodones.begin(),goodones.end(),name);
				if (matchel != goodones.end()) {
					matchids.push_back(i);
				}
			}
		}
	}
	if (matchids.size() == 0) {
		throw std::runtime_error("None of the requested field names matched");
	}

}


long long Records::SequenceCheck(PyObject* obj)
{
	if (obj == NULL) {
		return -1;
	}
	long long len=0;
	// The docs claim this check always succeeds, but not on NULL
	if (PySequence_Check(obj)) {
		len=PySequence_Size(obj);
	} else {
		len=-1;
	}
	return len;

}
*/



/*
   For writing a header.  the new offset comes from the position after writing the header
*/

PyObject* Records::write_header_and_update_offset(PyObject* obj) 
{
    ensure_writable();

    // should not be necessary, since file should be empty
    rewind(mFptr);

    string header = get_object_as_string(obj);
    fprintf(mFptr, "%s", header.c_str());

    mFileOffset = ftell(mFptr);

    Py_RETURN_NONE;
}

/*

   special function to help SFile to update the header row count

   Rewind the file, write a new SIZE = line, then move back to
   the end of the file

*/

PyObject* Records::update_row_count(long nrows) 
{
    ensure_writable();

    // go back to the beginning
    rewind(mFptr);

    // write the fixed-size SIZE entry
    fprintf(mFptr, "SIZE = %20ld\n", nrows);

    // seek back to the end of the file
    fseek(mFptr, 0, SEEK_END);

    Py_RETURN_NONE;
}

PyObject* Records::read_sfile_header(void) 
{

    ensure_readable();

    // go back to the beginning
    rewind(mFptr);

    // look for a line holding only END; the letters END can also occur
    // inside the header text itself
	char endbuff[6]={0};
    size_t count=0;

	while (1) {
        char c = fgetc(mFptr);

        if (EOF==c) {
            throw std::runtime_error("EOF reached before reading header end");
        }

        count++;

        endbuff[0] = endbuff[1];
        endbuff[1] = endbuff[2];
        endbuff[2] = endbuff[3];
        endbuff[3] = endbuff[4];

        endbuff[4] = c;

        if (0==strncmp(endbuff,"\nEND\n",5)) {
            break;
        }
    }

    // we need to add
    // 1 for the empty line

    count += 1;

    string hdr;
    hdr.resize(count);
    rewind(mFptr);
    size_t nread = fread(&hdr[0], 1, count, mFptr);
    if (nread != count) {
        throw std::runtime_error("Error reading header");
    }

    return Py_BuildValue("sl", hdr.c_str(), ftell(mFptr));

}




PyObject* Records::Write(PyObject* obj) 
{
    ensure_writable();

    // always write from the end
    fseek(mFptr, 0, SEEK_END);

	PyObject* ret=Py_None;
	Py_INCREF(Py_None);


	if (!PyArray_Check(obj)) {
		throw std::runtime_error("Input must be a NumPy array object");
	}
	mNrows = PyArray_Size(obj);

	PyArray_Descr* descr = PyArray_DESCR((PyArrayObject *) obj);

	copy_field_info(descr);

	mNfields = mNames.size();

	mData = (char* ) PyArray_DATA((PyArrayObject *) obj);

	if (mDebug) debugout("Writing data");
	if (mFileType == BINARY_FILE) {
		WriteAllAsBinary();
	} else{
		WriteRows();
	}

	if (mDebug) debugout("Finished writing");
	return(ret);
}

void Records::WriteAllAsBinary() 
{
	// This is easy!
	if (mDebug) debugout("Writing in one big fwrite");
	npy_intp nwrite = fwrite(mData, mRowSize, mNrows, mFptr);
	if (nwrite < mNrows) {
		stringstream serr;
		string err;
		serr<<"Error occured writing binary data: Expected "
			<<mNrows<<" but only wrote "<<nwrite;

		err=serr.str();
		throw std::runtime_error(err);
	}

}

void Records::WriteRows() 
{
	if (mDebug) {
		cerr<<"Writing "<<mNrows<<" rows as ASCII"<<endl;
		fflush(stdout);
	}
	if (mDebug) debugout("Writing rows");
	for (long long row=0; row< mNrows; row++) {
		for (long long fnum=0; fnum< mNfields; fnum++) {

            if (mBracketArrays && mNdim[fnum] > 0) {
                WriteArrayFieldWithBrackets(fnum);
            } else {
                WriteField(fnum);
            }
		} // fields
		// Write the newline character
		fputc('\n', mFptr);
	} // rows
}

void Records::WriteField(long long fnum)  
{

	long long nel=mNel[fnum];
	long long elsize = mSizes[fnum]/nel;
	long long type_num = mTypeNums[fnum];

	for (long long el=0; el<nel; el++) {

		if (type_num == NPY_STRING) {
			WriteStringAsAscii(fnum);
		} else {
			WriteNumberAsAscii(mData, type_num);
		}

		// Add a delimiter between elements
		if (el < (nel-1) ) {
            fprintf(mFptr, "%s", mDelim.c_str());
		}

		mData += elsize;

	}

	// Also will add a delim after the field
	if ( fnum < (mNfields-1) ) {
		fprintf(mFptr, "%s", mDelim.c_str());
	}

}

void Records::WriteArrayFieldWithBrackets(long long fnum)  
{

    // [3,2] looks like this:
    //   {{0.332407,0.864918},{0.777847,0.915038},{0.969121,0.866417}}
    // [3,2,4]
    // {{{0.976173,0.220988,0.207728,0.150891},{0.77637,0.405874,0.817494,0.0382292}},{{0.295267,0.0950662,0.629128,0.584864},{0.331606,0.749993,0.848343,0.430986}},{{0.379886,0.483621,0.280487,0.732344},{0.975598,0.518987,0.75701,0.274867}}}

	//long long nel=mNel[fnum];
	//long long elsize = mSizes[fnum]/nel;
	//long long type_num = mTypeNums[fnum];

    // Begin with the first dimension
    _WriteArrayWithBrackets(fnum, 0);

	// Also will add a regular delim after the field
	if ( fnum < (mNfields-1) ) {
		fprintf(mFptr, "%s", mDelim.c_str());
	}

}


void Records::_WriteArrayWithBrackets(long long fnum, long long dim)  {

	long long nel=mNel[fnum];
	long long elsize = mSizes[fnum]/nel;
	long long type_num = mTypeNums[fnum];

    // size of this dimension
    long long thisdim = mDims[fnum][dim];

    fprintf(mFptr,"{");
    for (int i=0; i<thisdim; i++) {

        if (dim < (mNdim[fnum]-1)) {
            // If we arent' on the last dimension, don't write anything yet
            // just call recursively
            _WriteArrayWithBrackets(fnum, dim+1);
        } else {

            if (type_num == NPY_STRING) {
                WriteStringAsAscii(fnum);
            } else {
                WriteNumberAsAscii(mData, type_num);
            }

            //WriteNumberAsAscii(mData, type_num);
            mData += elsize;
        }

        // Add an array delimiter between elements
        if (i < (thisdim-1) ) {
            fprintf(mFptr, "%s", mArrayDelim.c_str());
        }
    }
    fprintf(mFptr,"}");
}



void Records::WriteStringAsAscii(long long fnum) 
{
	char* buffer=NULL;

	buffer = mData;

	long long slen = mSizes[fnum]/mNel[fnum];
	for (long long i=0; i<slen; i++) {
		char c=buffer[0];
		if (c == '\0') {
			if (mIgnoreNull) {
				// we assume the user cares about nothing beyond the null
				// this will break out of writing this the rest of this field.
				break;
			}
			if ( mPadNull ) {
				c=' ';
			}
		}
		int res = fputc( (int) c, mFptr);
		if (res == EOF) {
			throw std::runtime_error("Error occured writing string field");
		}
		buffer++;
	}
}

void Records::WriteNumberAsAscii(char* buffer, long long type) 
{
	int res;

	switch (type) {
		case NPY_INT8:
			res= fprintf( mFptr, 
					mPrintFormats[type].c_str(), *(npy_int8* )buffer ); 	
			break;
		case NPY_UINT8:
			res= fprintf( mFptr, 
					mPrintFormats[type].c_str(), *(npy_uint8* )buffer ); 	
			break;

		case NPY_INT16:
			res= fprintf( mFptr, 
					mPrintFormats[type].c_str(), *(npy_int16* )buffer ); 	
			break;
		case NPY_UINT16:
			res= fprintf( mFptr, 
					mPrintFormats[type].c_str(), *(npy_uint16* )buffer ); 	
			break;

		case NPY_INT32:
			res= fprintf( mFptr, 
					mPrintFormats[type].c_str(), *(npy_int32* )buffer ); 	
			break;
		case NPY_UINT32:
			res= fprintf( mFptr, 
					mPrintFormats[type].c_str(), *(npy_uint32* )buffer ); 	
			break;

		case NPY_INT64:
			res= fprintf( mFptr, 
					mPrintFormats[type].c_str(), *(npy_int64* )buffer ); 	
			break;
		case NPY_UINT64:
			res= fprintf( mFptr, 
					mPrintFormats[type].c_str(), *(npy_uint64* )buffer ); 	
			break;

#ifdef NPY_INT128
		case NPY_INT128:
			res= fprintf( mFptr, 
					mPrintFormats[type].c_str(), *(npy_int128* )buffer ); 	
			break;
		case NPY_UINT128:
			res= fprintf( mFptr, 
					mPrintFormats[type].c_str(), *(npy_uint128* )buffer ); 	
			break;
#endif
#ifdef NPY_INT256
		case NPY_INT256:
			res= fprintf( mFptr, 
					mPrintFormats[type].c_str(), *(npy_int256* )buffer ); 	
			break;
		case NPY_UINT256:
			res= fprintf( mFptr, 
					mPrintFormats[type].c_str(), *(npy_uint256* )buffer ); 	
			break;
#endif

		case NPY_FLOAT32:
			res= fprintf( mFptr, 
					mPrintFormats[type].c_str(), *(npy_float32* )buffer ); 	
			break;
		case NPY_FLOAT64:
			res= fprintf( mFptr, 
					mPrintFormats[type].c_str(), *(npy_float64* )buffer ); 	
			break;
#ifdef NPY_FLOAT128
		case NPY_FLOAT128:
			res= fprintf( mFptr,
					mPrintFormats[type].c_str(),*(npy_float128* )buffer ); 	
			break;
#endif

		default:
			stringstream serr;
			string err;
			serr << "Unsupported type "<<type;
			err=serr.str();
			throw std::runtime_error(err);
			break;
	}

	if (res < 0) {
		throw std::runtime_error("Error writing data");
	}
}






/*
void Records::ProcessFieldsToRead(PyObject* fields)
{

	if (mDebug) debugout("Processing requested fields");
	mKeep.resize(mNfields, 0);
	if (fields == NULL || fields == Py_None) {
		mKeepNfields = mNfields;
		mKeepId.resize(mNfields);
		for (long long i=0; i<mNfields; i++) {
			mKeepId[i] = i;
		}
		mKeepTypeDescr = mTypeDescr;
		Py_INCREF(mTypeDescr);
	} else {
		SubDtype(mTypeDescr, fields, &mKeepTypeDescr, mKeepId);
		mKeepNfields = mKeepId.size();
	}

	// This tells us if we keep a given field
	if (mDebug) debugout("Setting mKeep vector");
	for (long long i=0; i<mKeepNfields; i++) {
		mKeep[ mKeepId[i] ] = 1;
	}

	if (mDebug) {
		cerr<<"Will read "<<mKeepNfields<<"/"<<mNfields<<" fields"<<endl;
		fflush(stdout);
	}

}



void Records::ProcessRowsToRead(PyObject* rows)
{
	// Convert to an array of the desired type.  We will xdecref this 
	mRowsToRead = Object2IntpArray(rows);
	if (mRowsToRead == NULL) {
		// If returns NULL and no excepton thrown, means we will read all
		mNrowsToRead = mNrows;
	} else {
		// How many to read
		mNrowsToRead = PyArray_SIZE(mRowsToRead);
	}

	if (mNrowsToRead > mNrows) {
		stringstream serr;
		serr<<"You said the file has "<<mNrows<<" rows but requested to read "
			<<mNrowsToRead<<" rows";
		throw std::runtime_error(serr.str());
	}

	if (mDebug) {
		cerr<<"Will read "<<mNrowsToRead<<"/"<<mNrows<<" rows"<<endl;
		fflush(stdout);
	}
}

*/

void Records::process_descriptor(PyObject* descr)
{
	if (descr == NULL) {
		throw std::runtime_error("Input descr is NULL");
	}

	if (!PyArray_DescrCheck(descr)) {
		throw
			std::runtime_error("Input descr must be a NumPy type descriptor. e.g. "
			"arr.dtype, or numpy.dtype(typelist)");
	}

	// Get a new reference to this descr and make sure to decref later
	// on destruction
	mTypeDescr = descr;
	Py_XINCREF(descr);

	// Copy info for each field into a simpler form
	copy_field_info( (PyArray_Descr* ) mTypeDescr );

	// Each vector should now be number of fields long
	mNfields = mNames.size();
}


void Records::set_fptr(const char *filename, const char* mode)
{
	if (mDebug) debugout("Getting fptr");

    string fstr=filename;
    mFptr = fopen(fstr.c_str(), mode);
    if (mFptr==NULL) {
        string err="Could not open file: "+fstr;
        throw std::runtime_error(err);
    }
    return;

}

void Records::process_delim(PyObject* delim_obj)
{
	if (delim_obj == NULL || delim_obj == Py_None) {
		mDelim="";
        mArrayDelim="";
	} else {
		if (is_python_string(delim_obj)) {
			mDelim = get_object_as_string(delim_obj);

            if (mBracketArrays) {
                mArrayDelim = ",";
            } else {
                mArrayDelim = mDelim;
            }
		} else {
			throw std::runtime_error("delim keyword must be a string or None");
		}
	}

	if (mDelim[0] == ' ') {
		mReadAsWhitespace=true;
	} else {
		mReadAsWhitespace=false;
	}

	if (mDebug) {cerr<<"Using delim = \""<<mDelim<<"\""<<endl; fflush(stdout);}
}

void Records::set_file_type()
{
	if (mDelim == "") {
		mFileType = BINARY_FILE;
		if (mDebug) debugout("File type set to BINARY_FILE");
	} else {
		mFileType = ASCII_FILE;
		if (mDebug) debugout("File type set to ASCII_FILE");
	}

}





void Records::debugout(const char* mess)
{
	cerr<<mess<<endl;
	fflush(stdout);
}


// These get functions do not rely on internal data
void Records::copy_field_info(PyArray_Descr* descr)
{
	if (mDebug) debugout("Copying field info");
	if (mDebug) debugout("Copying ordered names");
	copy_descr_ordered_names(descr);
	if (mDebug) debugout("Copying offsets");
	copy_descr_ordered_offsets(descr);
        mRowSize = PyDataType_ELSIZE(descr);
}

void Records::copy_descr_ordered_names(PyArray_Descr* descr)
{
	// Get the ordered names
	mNames.clear();

	for (long long i=0; i<PyTuple_Size(PyDataType_NAMES(descr)); i++) {

                PyObject* tmp = PyTuple_GET_ITEM(PyDataType_NAMES(descr), i);
		string tname=get_object_as_string(tmp);
		if (mDebug) {cerr<<"  "<<tname<<endl;}
		mNames.push_back(tname);
	}

}

void Records::copy_descr_ordered_offsets(PyArray_Descr* descr)
{

	mOffsets.assign(mNames.size(), -1);
	mSizes.assign(mNames.size(), -1);
	mTypeNums.assign(mNames.size(), -1);
	mNel.assign(mNames.size(), -1);
    mNdim.assign(mNames.size(),-1);
    mDims.resize(mNames.size());

	// Get the offsets, ordered with names
	PyArray_Descr *fdescr, *title;

	// WARNING:  this is long int and being copied to long long
	long int offset;

	if (mDebug) {cerr<<"Copying ordered descr info:"<<endl;fflush(stdout);}
	for (unsigned long long i=0; i<mNames.size(); i++) {
		PyObject* item=
                        PyDict_GetItemString(PyDataType_FIELDS(descr), mNames[i].c_str());


        // default 0 dimensions
        mNdim[i] = 0;
        mDims[i].resize(0);

		if (item!=NULL) {
			if (!PyArg_ParseTuple(item, "Ol|O", &fdescr, &offset, &title)) {
				if (mDebug) 
				{cerr<<"Field: "<<mNames[i]<<" not right format"<<endl;}
			} else {
				mOffsets[i] = offset;
				mSizes[i] = PyDataType_ELSIZE(fdescr);
				mTypeNums[i] = fdescr->type_num;
				if (PyDataType_SUBARRAY(fdescr) != NULL) {
                    //cerr<<"subarray is not NULL for '"<<mNames[i]<<"'\n";
					// Here we are implicitly only allowing subarrays
					// if basic numbers or strings
                                        mNel[i] = mSizes[i]/PyDataType_ELSIZE(PyDataType_SUBARRAY(fdescr)->base);
					mTypeNums[i] = PyDataType_SUBARRAY(fdescr)->base->type_num;


                                PyObject* shape = PyDataType_SUBARRAY(fdescr)->shape;
#if PY_MAJOR_VERSION >= 3
                    if (PyLong_Check(shape) ) {
#else
                    if (PyInt_Check(shape) ) {
#endif
                        // this happens when a single dim array shows up
                        // with just the nel
                        mNdim[i] = 1;
                        mDims[i].assign(1,mNel[i]);
                    } else if (PyTuple_Check(shape) ) {
                        mNdim[i] = PyTuple_Size(shape);
                        mDims[i].resize(mNdim[i]);
                        for (int ii=0; ii<mNdim[i]; ii++) {
                            PyObject* tmp = PyTuple_GetItem(shape, ii);
#if PY_MAJOR_VERSION >= 3
                            mDims[i][ii] = PyLong_AsLong(tmp);
#else
                            mDims[i][ii] = PyInt_AsLong(tmp);
#endif
                        }
                    }


				} else {
					mNel[i] = 1;
				}
				if (mDebug) {
					cerr<<"  Offset("<<mNames[i]<<"): "<<mOffsets[i]<<endl;
					cerr<<"  Size("<<mNames[i]<<"): "<<mSizes[i]<<endl;
					cerr<<"  nel("<<mNames[i]<<"): "<<mNel[i]<<endl;
					cerr<<"  ndim("<<mNames[i]<<"): "<<mNdim[i]<<endl;
                    if (mNdim[i] > 0) {
                        cerr<<"    dims: [";
                        for (int ii=0;ii<mNdim[i];ii++) {
                            cerr<<mDims[i][ii];
                            if (ii < mNdim[i]-1){
                                cerr<<",";
                            }
                        }
                        cerr<<"]\n";
                    }
					cerr<<"  type_num("<<mNames[i]<<"): "<<mTypeNums[i]<<endl;
					cerr<<"  type("<<mNames[i]<<"): "<<fdescr->type<<endl;
					cerr<<endl;
				}
			}
		} else {
			if (mDebug) 
			{cerr<<"field: "<<mNames[i]<<" does not exist. offset->-1"<<endl;}
		}
	}

	if (mDebug) debugout("  Done");
}


void Records::make_scan_formats(vector<string> &formats, bool add_delim)
{

	formats.clear();
	int nf=24;
	formats.resize(nf, "%");

	formats[NPY_INT8] += NPY_INT8_FMT;
	formats[NPY_UINT8] += NPY_UINT8_FMT;
	
	formats[NPY_INT16] += NPY_INT16_FMT;
	formats[NPY_UINT16] += NPY_UINT16_FMT;

	formats[NPY_INT32] += NPY_INT32_FMT;
	formats[NPY_UINT32] += NPY_UINT32_FMT;

	formats[NPY_INT64] += NPY_INT64_FMT;
	formats[NPY_UINT64] += NPY_UINT64_FMT;

#ifdef NPY_INT128
	formats[NPY_INT128] += NPY_INT128_FMT;
	formats[NPY_UINT128] += NPY_UINT128_FMT;
#endif
#ifdef NPY_INT256
	formats[NPY_INT256] += NPY_INT256_FMT;
	formats[NPY_UINT256] += NPY_UINT256_FMT;
#endif

	// They put %g for these..!!??
	formats[NPY_FLOAT] += "f";
	formats[NPY_DOUBLE] += "lf";

#ifdef NPY_LONGDOUBLE
	formats[NPY_LONGDOUBLE] += "Lf";
#endif

	// The types for long long integers are incorrect in the
	// ndarrayobject.h header.  Uses Ld instead of lld.  
	// We need to loop over and fix this since we don't know ahead
	// of time on this platform which is the lld type
	for (int i=0; i<nf; i++) {
		if (formats[i] == "%Ld") {
			formats[i] = "%lld";
		}
		if (formats[i] == "%Lu") {
			formats[i] = "%llu";
		}
	}

	// Only add in the 
	if ((!mReadAsWhitespace) && (add_delim) ) {
		for (int i=0; i<nf; i++) {
			if (formats[i] != "%") {
				formats[i] += ' '+mDelim;
			}
		}
	}
}

void Records::make_print_formats(vector<string> &formats)
{

	make_scan_formats(formats,false);
	
	formats[NPY_FLOAT] = "%.7g";
    // for g the .16 means 16 total, 15 mantissa which is what we want for double
	formats[NPY_DOUBLE] = "%.16g";

	formats[NPY_STRING] = "%s";

}


