# flake8: noqa

from .import Util
from .Util import Recfile
from .Util import write, read
from .Util import Open

# use the same doc as the Util module
__doc__=Util.__doc__
