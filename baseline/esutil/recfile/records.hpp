#include <Python.h>
#include <iostream>
#include <vector>
#include <algorithm>
#include <string>
#include <sstream>
#include <stdexcept>
#include <stdint.h>
#include "numpy/arrayobject.h"

#ifndef _readfields_2_h
#define _readfields_2_h

#define NPY_NO_DEPRECATED_API NPY_1_7_API_VERSION

// Numpy 1/2 compatibility shims
#if NPY_ABI_VERSION < 0x02000000
#define PyDataType_ELSIZE(descr) ((descr)->elsize)
#define PyDataType_NAMES(descr) ((descr)->names)
#define PyDataType_FIELDS(descr) ((descr)->fields)
#define PyDataType_SUBARRAY(descr) ((descr)->subarray)
#endif

using namespace std;


class Records {
    public:

		Records(const char* filename, 
				const char* mode,
				PyObject* delim=NULL, 
				PyObject* dtype=NULL,
				long long nrows=-9999,
                long offset=0,
                int bracket_arrays=0,
                bool padnull=false,
                bool ignorenull=false
        ) ;

        ~Records();

		void close() ;

        // TODO convert
		PyObject* Write(PyObject* obj) ;


        PyObject* write_header_and_update_offset(PyObject* obj) ;
        PyObject* update_row_count(long nrows) ;
        PyObject* read_sfile_header(void) ;


        // new style
        PyObject* read_columns(PyObject* arrayobj,
                               PyObject* colnums,
                               PyObject* rows) ;

        PyObject* read_binary_slice(PyObject* arrayobj,
                                    long long row1,
                                    long long row2,
                                    long long step) ;

    private:

		// Check the input nrows and copy to mNrows
		void process_nrows(long long nrows) ; 

		void do_seek(npy_intp seek_distance) ;
        void goto_offset(void);

        // new style
        npy_intp get_nrows_to_read(PyObject* rows);
        npy_intp get_ncols_to_read(PyObject* rows);

        void scan_column_values(long long fnum, char* buff) ;
        void read_ascii_bytes(long long colnum, char* buff) ;
        void read_from_text_column(long long colnum, char* buff) ;
        void read_from_binary_column(long long colnum, char* buff) ;

        void read_binary_columns(PyObject* arrayobj,
                                 PyObject* colnums,
                                 PyObject* rows) ;
        void skip_ascii_col_range(npy_intp start, npy_intp stop) ;
        void read_text_columns(PyObject* arrayobj,
                               PyObject* colnums,
                               PyObject* rows) ;


		// Initialize member variables
		void init_variables();


        void ensure_writable(void) ;
        void ensure_readable(void) ;
        void ensure_binary(void) ;
        void ensure_text(void) ;

        npy_intp process_slice(npy_intp row1, npy_intp row2, npy_intp step) ;
		void skip_rows(long long current_row, long long row2read) ;
		void skip_text_rows(long long nskip) ;
		void skip_binary_rows(long long nskip) ;

		void make_scan_formats(vector<string> &formats, bool add_delim);
		void make_print_formats(vector<string> &formats);

        // TODO still need to be converted
		void WriteAllAsBinary() ;
		void WriteRows() ;
		void WriteField(long long fnum) ;
        void WriteArrayFieldWithBrackets(long long fnum) ;
        void _WriteArrayWithBrackets(long long fnum, long long dim) ;
		void WriteNumberAsAscii(char* buffer, long long type) ;
		void WriteStringAsAscii(long long fnum) ;


		void copy_field_info(PyArray_Descr* descr);
		void copy_descr_ordered_names(PyArray_Descr* descr);
		void copy_descr_ordered_offsets(PyArray_Descr* descr);

		// Get the file pointer or open the file if it is a string.  
		void set_fptr(const char* filename, const char* mode);


		// Set the file type based on the delimeter
		void set_file_type();
		// Check the input and if good copy into mDelim string
		void process_delim(PyObject* delim_obj);
		// Check the input descr and get a new reference to it in mTypeDescr
		void process_descriptor(PyObject* descr);

		void debugout(const char* mess);



		// Data


		// --- means we will initialize 
		// +++ possibly need to decref

        // mode opening file
		string mMode;

        long mFileOffset;

		int mFileType;
		int mAction;

        npy_intp mNrows;             // Total number of rows in file

		// The input type descriptor for each row of the file
		PyObject* mTypeDescr;                                  //--- +++

		// Will hold scan and print formats for each data type
		vector<string> mScanFormats;
		vector<string> mPrintFormats;

		FILE* mFptr;                                           //---

		// Delimiter for ascii files
		string mDelim;
        // this can be different when bracket_arrays is sent
        // since we demand commas there
        string mArrayDelim;

		// Reading as binary or ascii?
		bool mReadAsWhitespace;                                //---

        // when writing text, padd out nulls in strings with spaces
		bool mPadNull;

        // when writing text, do not write beyond the null
        // for reading back in this may cause problems for some delimiters
		bool mIgnoreNull;

        // for postgres
        int mBracketArrays;

        // Info about each row of file
        vector<string> mNames;        // Names of all fields in file
        vector<long long> mOffsets;   // offsets of each field in each row
        vector<long long> mSizes;     // size of each field in each row
		vector<long long> mNel;       // number of elements in this field
        vector<long long> mNdim;      // ndim for each field
        vector<vector<long long> > mDims;      // a dims array
		vector<long long> mTypeNums;  // type numbers for each field
        long long mRowSize;           // total size of each row
        vector<long long> mKeep; // boolean, tells if we are keeping each field
		long long mNfields;           // number of fields

        // TODO temporarily point to data being written; need to convert
        char *mData;

        // constants

		// Action bits
		static const int READ = 1;
		static const int WRITE = 2;

		// File types
		static const int BINARY_FILE = 0;
		static const int ASCII_FILE = 1;


		static const bool mDebug=false;
		//static const bool mDebug=true;
};


#endif
