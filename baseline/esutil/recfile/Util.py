"""
TODO
    - fix docs
    - bools, complex (should work for binary)
"""
from __future__ import print_function
import numpy
import sys
import os
import pprint

from . import records


def write(filename, data, mode="w", **keys):
    """
    write data into a records file

    For more information about keywords, see docs for recfile.Recfile
    """

    if mode not in ["w", "w+", "r+"]:
        raise ValueError("to write, mode must be one of w, w+, r+")
    with Recfile(filename, mode=mode, **keys) as robj:
        robj.write(data)


def read(filename, dtype, **keys):
    """
    read data from a recfile

    For more information about keywords, see docs for recfile.Recfile
    """

    with Recfile(filename, dtype=dtype, mode="r", **keys) as robj:
        data = robj.read(**keys)

    return data


def Open(filename, mode="r", **keys):
    """
    just instantiates a Recfile object

    it is generally better to use a with context
    """
    # doc string generated dynamically below

    # make sure it's a dtype and not just a descr
    return Recfile(filename, mode=mode, **keys)


class Recfile(object):
    """
    Class to read and write to files with fixed lenght records

    parameters
    -----------
    filename: string
        path to the file

    mode: The file mode.  Default is "r" but can also be "r+","w","w+".
    delim: The delimiter used in the file.  Use None for
        binary files.  Default is None. Can also be any string such
        as ",", "\\t", etc.

    dtype:  numpy dtype object, optional
        REQUIRED FOR READING.
        For example:
            [('field1', 'i4'),('field2', 'f8')]
            array.dtype
        the type must contain fields.

    nrows: integer, optional
        The number of rows in the file.  If rows is not sent, it will
        be determined from the newlines for ascii or from file data and
        dtype for binary.

    offset:  integer, optional
        Offset into the file where reading will begin.  Used if opening with
        "r" or "r+".  For "w" or "w+" offset is zero by definition.

    padnull: bool, optional
        When writing ascii, replace nulls in strings with spaces.  Useful for
        programs that don't understand nulls like sqlite databases.

    ignorenull: bool, optional
        When writing ascii, just ignore nulls when writing strings. Note this
        will not result in fixed length data so you cannot generally read it
        back in using recfile. Useful for programs that don't understand nulls,
        like sqlite databases.

    bracket_arrays: bool, optional

        If True and writing ascii, arrays are written thus:
            {el1,el2,....}
        Currently the delimiter is forced to be a comma because the authors
        were implementing postgres input files.

    examples
    --------
    Instantiate a new Recfile class
        For writing:
            from recfile import Recfile
            with Recfile(fname, mode="w") as robj:
                robj.write(data1)
                robj.write(data2) # append

            for updating use mode="r+"

            # you can also use a convenience function
            import recfile
            recfile.write(fname, data)

        For reading

            fname='test.bin'
            dtype=[('field1','f8'),('field2','2i4'),('field3','i8')]
            with Recfile(fname, mode="r", dtype=dtype) as robj:

                data = robj[:]
                data = robj.read()

                # read a subset of rows using slice notation
                data = robj[3500:5238]
                data = robj[ 10:1234:3 ]

                # specifying rows explicitly
                row_list = [35,88,217]
                data = robj[row_list]
                data = robj.read(rows=row_list)


                # read a subset of columns.
                column_list = ['field2','field3']
                data = robj.read(columns=column_list)

                # In bracket notation, you must specify rows to read the data.
                data = robj['field2'][:]
                data = robj[column_list][rowlist]
                data = robj['field3'].read()


            # Read from a CSV file of the same structure, and only read a
            # subset of the data.  Nrows can be specified to speed up reading
            # if known, otherwise they will be counted, which is slow for text.

            fname='test.csv'
            delim=','
            with Recfile(fname, mode="r", dtype=dtype, delim=delim) as robj:
                # etc

    """

    def __init__(self, filename, mode="r", **keys):
        self.open(filename, mode=mode, **keys)

    def open(self, filename, mode="r", **keys):
        """
        see docs for the Recfile class
        """

        self.close()

        self.mode = mode

        dtype = keys.get("dtype", None)
        nrows = keys.get("nrows", -9999)

        self.bracket_arrays = keys.get("bracket_arrays", False)

        self.padnull = keys.get("padnull", False)
        self.ignorenull = keys.get("ignorenull", False)

        self.delim = keys.get("delim", None)
        self.skiplines = keys.get("skiplines", None)
        self.offset = keys.get("offset", None)

        if self.skiplines is not None:
            raise RuntimeError("skiplines is no longer supported")

        if self.offset in [None, ""]:
            self.offset = 0
        else:
            self.offset = int(self.offset)
            if self.offset < 0:
                self.offset = 0

        if self.delim == "":
            self.delim = None

        if self.delim is not None:
            self.is_ascii = True
        else:
            self.is_ascii = False

        # expand shortcut variables
        filename = os.path.expanduser(filename)
        self.filename = os.path.expandvars(filename)

        if self.mode not in ["r", "r+", "w", "w+"]:
            raise ValueError("bad mode: '%s'" % self.mode)

        if self.mode == "r+" and not os.path.exists(filename):
            raise RuntimeError("opened with 'r+' but file does not exist")

        if self.mode[0] == "r":
            if dtype is None:
                raise ValueError("You must enter dtype when reading")

            self.dtype = numpy.dtype(dtype)
            if self.is_ascii:
                # we don't care about byte order for ascii
                nbo = remove_dtype_byteorder(self.dtype)
                self.dtype = numpy.dtype(nbo)

            self.colnames = numpy.array(self.dtype.names)
            self.ncols = self.colnames.size

            if nrows is None or nrows < 0:
                self.nrows = self._count_nrows()
            else:
                self.nrows = int(nrows)

            self.robj = records.Records(
                self.filename,
                mode=self.mode,
                delim=self.delim,
                dtype=self.dtype,
                nrows=self.nrows,
                offset=self.offset,
                padnull=self.padnull,
                ignorenull=self.ignorenull,
            )
        else:
            self.robj = records.Records(
                filename,
                mode=self.mode,
                delim=self.delim,
                bracket_arrays=self.bracket_arrays,
                padnull=self.padnull,
                ignorenull=self.ignorenull,
            )

    def close(self):
        """
        Close any open file object.  Make sure various things are None
        """
        self.offset = 0
        self.delim = None
        self.nrows = 0
        self.dtype = None
        if hasattr(self, "robj"):
            if self.robj is not None:
                self.robj.close()
        self.robj = None

        self.padnull = False
        self.ignorenull = False

    def _count_nrows(self):
        """
        get the number of rows in the file
        """
        with open(self.filename) as fobj:
            if self.offset > 0:
                fobj.seek(self.offset)

            if self.delim is not None:
                # for ascii this can be slow
                nrows = 0
                for line in fobj:
                    nrows += 1
            else:
                # For binary, try to figure out the number of rows based on
                # the number of bytes

                rowsize = self.dtype.itemsize
                # go to end
                fobj.seek(0, 2)
                datasize = fobj.tell() - self.offset
                nrows = datasize // rowsize

        return nrows

    def __repr__(self):
        s = []

        s += ["filename: '%s'" % self.filename]
        s += ["mode: '%s'" % self.mode]
        if self.delim is not None:
            s += ["filetype: TEXT"]
            s = ["delim: '%s'" % self.delim]
        else:
            s += ["filetype: BINARY"]

        s += ["nrows: %s" % self.nrows]

        if self.dtype is not None:
            drepr = pprint.pformat(self.dtype.descr)
            drepr = "  " + drepr.replace("\n", "\n  ")
            s += ["dtype: \n" + drepr]

        s = "\n".join(s)
        return s

    def get_colnum(self, colname):
        """
        get the column number for the input column name
        """

        if not numpy.isscalar(colname):
            raise ValueError("column name should be a string, "
                             "got %s" % str(colname))

        (w,) = numpy.where(self.colnames == colname)
        if w.size == 0:
            raise ValueError("column '%s' not found" % colname)
        return w[0]

    def get_colnums(self, colnames):
        """
        get the column number for the input column name
        """

        colnames = numpy.atleast_1d(colnames)
        colnums = numpy.zeros(colnames.size, dtype="i8")

        for i in range(colnames.size):
            colnums[i] = self.get_colnum(colnames[i])

        return numpy.unique(colnums)

    def read(self, rows=None, fields=None, columns=None, split=False, **keys):
        """
        Class:
            Recfile
        Method:
            read
        Purpose:
            read records from the opened file.
        Syntax:
            r=recfile.Open(...)
            data = r.read(rows=None,
                          fields=None, columns=None,
                          split=False)

            If no arguments are given, all data are read.

        Inputs:
            rows: A scalar, sequence or array indicating a subset
                of rows to read.
            fields or columns: A scalar, sequence, or array indicating
                a subset of field to read. fields and columns mean the
                same thing.
            split: Return a tuple of results rather than a rec array. Note
                the data are still stored in one big chunk, this is just
                an alternative access method.  E.g.

                # this might return a rec array with fields accessed
                # such as data['x'] data['y'] data['index']
                data = r.read()
                # this returns a tuple with an element for each
                x,y,index = r.read(split=True)
        """

        if self.robj is None:
            raise ValueError("You have not yet opened a file")

        if columns is None:
            columns = fields

        rows = self._get_rows2read(rows)
        colnums, isscalar = self._get_colnums_to_read(fields, columns=columns)

        read_all_rows = (rows is None) or (rows.size == self.nrows)
        read_all_cols = (colnums is None) or (colnums.size == self.ncols)

        if self.is_ascii:
            # we always use the same code for ascii
            result = self._read_columns(colnums, rows)
        else:
            # we have specialized codes for binary
            if read_all_cols and read_all_rows:
                result = self._read_binary_slice(slice(0, self.nrows, 1))

            # elif read_all_cols:
            #    # read some row subset
            #    result = self.robj.read_binary_rows(rows)

            else:
                result = self._read_columns(colnums, rows)

        if isscalar:
            result = result[columns]
        elif split:
            result = split_fields(result)

        return result

    Read = read

    def _read_columns(self, colnums, rows):
        """
        read a set of columns from the file, possibly a subset of the rows

        parameters
        ----------
        colnums: string
            string column numbes
        rows: array, optional
            Subset of rows to read
        """

        if self.robj is None:
            raise ValueError("You have not yet opened a file")

        if rows is not None:
            nrows = rows.size
        else:
            nrows = self.nrows

        if colnums is not None:
            dtype = []
            for colnum in colnums:
                dtype.append(self.dtype.descr[colnum])
        else:
            dtype = self.dtype

        data = numpy.zeros(nrows, dtype=dtype)

        self.robj.read_columns(data, colnums, rows)

        return data

    def write(self, data):
        """
        Write data to the file.

        The dtype of the data must match for successive calls to write.

        parameters
        -----------
        data: array
            array with fields
        """
        if self.robj is None:
            raise ValueError("You have not yet opened a file")

        dataview = data.view(numpy.ndarray)

        if self.is_ascii:
            # for ascii, make sure the data are in native format.  This greatly
            # simplifies the C code.  Convert a copy: the view shares the
            # caller's buffer
            dataview = dataview.copy()
            to_native_inplace(dataview)
        else:
            # the C code writes the rows as one block starting at the data
            # pointer: a strided view must be packed first
            dataview = numpy.ascontiguousarray(dataview)

        self.robj.Write(dataview)

        # update nrows to reflect the write
        self.nrows += dataview.size

    Write = write

    def __getitem__(self, arg):
        """
        sf = Recfile(....)

        # read subsets of columns and/or rows from the file.  Rows and
        # columns can be lists/tuples/arrays

        # read subsets of rows
        data = sf[:]
        data = sf[ 35 ]
        data = sf[ 35:88 ]
        data = sf[ [3,234,5551,.. ] ]

        # read subsets of columns
        data = sf['fieldname'][:]
        data = sf[ ['field1','field2',...] ][row_list]


        # read subset of rows *and* columns.
        data = sf['fieldname'][3:58]
        data = sf[fieldlist][rowlist]

        # Note, if you send just columns, a RecfileColumnSubset object is
        # returned
        sub = sf['fieldname']
        data = sub.read(rows=)
        """

        if self.robj is None:
            raise ValueError("You have not yet opened a file")

        if self.is_ascii:
            unpack = True
        else:
            unpack = False

        res, isrows, isslice = self._process_args_as_rows_or_columns(
            arg, unpack=unpack
        )
        if isrows:
            # rows were entered: read all columns
            if isslice:
                return self._read_binary_slice(res)
            else:
                rows = res
                return self.read(rows=rows)
        else:
            # columns was entered.  Return a subset objects
            return RecfileColumnSubset(self, columns=res)

    def _get_slice_nrows(self, arg):
        """
        we have already done error checking on the slice
        """

        rowdiff = arg.stop - arg.start
        extra = 0
        if (rowdiff % arg.step) != 0:
            extra = 1

        nrows = rowdiff // arg.step + extra

        return nrows

    def _read_binary_slice(self, arg, split=False):
        """
        read a slice of rows

        we have already done error checking on the slice
        """
        if self.robj is None:
            raise ValueError("You have not yet opened a file")

        nrows = self._get_slice_nrows(arg)

        data = numpy.zeros(nrows, dtype=self.dtype)

        self.robj.read_binary_slice(
            data,
            int(arg.start),
            int(arg.stop),
            int(arg.step),
        )

        if split:
            return split_fields(data)
        else:
            return data

    def get_memmap(self, **keys):
        """
        no longer supported
        """
        raise RuntimeError("memmap is no longer supported")

    def get_subset(self, rows=None, fields=None, columns=None):
        """
        sub = rf.get_subset(rows=None, fields=None, columns=None)

        Get a RecfileSubset object with the specified rows/columns. See
        the docs for RecfileSubset for more info.
        """
        return RecfileSubset(self, rows=rows, fields=fields, columns=columns)

    def _process_args_as_rows_or_columns(self, arg, unpack=False):
        """

        args must be a tuple.  Only the first one or two args are used.

        We must be able to interpret the args as as either a column name or
        row number, or sequences thereof.  Numpy arrays and slices are also
        fine.

        Examples:
            'field'
            35
            [35,55,86]
            ['f1',f2',...]
        Can also be tuples or arrays.

        """

        isslice = False
        isrows = False
        result = arg
        if isinstance(arg, (tuple, list, numpy.ndarray)):
            # a sequence was entered
            if isstring(arg[0]):
                pass
            else:
                isrows = True
                result = arg
        elif isstring(arg):
            # a single string was entered
            pass
        elif isinstance(arg, slice):
            isrows = True
            if unpack:
                isslice = False
                result = self._slice2rows(arg.start, arg.stop, arg.step)
            else:
                isslice = True
                result = self._process_slice(arg)
        else:
            # a single object was entered.  Probably should apply some more
            # checking on this
            isrows = True

        return result, isrows, isslice

    def _process_slice(self, arg):
        # python slice semantics for negative and out of range bounds
        start, stop, step = arg.indices(self.nrows)

        if stop < start:
            # will return an empty struct
            stop = start

        return slice(start, stop, step)

    def _slice2rows(self, start, stop, step=None):
        # python slice semantics for negative and out of range bounds
        start, stop, step = slice(start, stop, step).indices(self.nrows)
        return numpy.arange(start, stop, step, dtype="i8")

    def _fix_range(self, num, isslice=True):
        """
        If el=True, then don't treat as a slice element
        """

        if isslice:
            # include the end
            if num < 0:
                num = self.nrows + (1 + num)
            elif num > self.nrows:
                num = self.nrows
        else:
            # single element
            if num < 0:
                num = self.nrows + num

        return num

    def _get_rows2read(self, rows):
        if rows is None:
            return None
        try:
            # a sequence entered
            rows2read = numpy.atleast_1d(rows).astype("i8")
            if rows2read.size == 1:
                rows2read[0] = self._fix_range(rows2read[0], isslice=False)
        except Exception:
            # single object entered
            rows2read = self._fix_range(rows, isslice=False)
            rows2read = numpy.array([rows2read], dtype="i8")

        # should we do this sort, or assume sorted?

        rows2read = numpy.unique(rows2read)

        if rows2read.size == 0:
            # an empty selection, e.g. from an empty slice
            return rows2read

        rmin = rows2read[0]
        rmax = rows2read[-1]
        if rmin < 0 or rmax >= self.nrows:
            raise ValueError(
                "Requested rows range from %s->%s: out of "
                "range %s->%s" % (rmin, rmax, 0, self.nrows - 1)
            )

        return rows2read

    def _get_colnums_to_read(self, fields, columns=None):
        if fields is None:
            fields = columns

        if fields is None:
            # return None, False
            colnums = numpy.arange(self.colnames.size)
            return colnums, False

        is_scalar = numpy.isscalar(fields)
        if is_scalar:
            fields = [fields]

        if isinstance(fields, (list, numpy.ndarray)):
            f2read = fields
        elif isinstance(fields, tuple):
            f2read = list(fields)
        elif isstring(fields):
            f2read = fields
        else:
            raise ValueError("fields must be list,tuple,string or array")

        colnums = self.get_colnums(f2read)

        return colnums, is_scalar

    def __enter__(self):
        return self

    def __exit__(self, exception_type, exception_value, traceback):
        self.close()

    def __len__(self):
        return self.nrows


class RecfileSubset(object):
    """
    A class representing a subset of the data on disk.  Useful for chaining
    together selections. e.g.

        sf = recfile.Open(fname, dtype=dtype)

        sub = sf.get_subset(rows=rowlist, columns=colliset)

        sub1 = sf.get_subset(rows=rows)
        sub2 = sub1.get_subset(columns=columns)
        or simpley call the object
        sub2 = sub1(columns=columns)

        data = sub2.read()

        data = sf.get_subset(rows=rows)(columns=cols).read()

    Useful because subsets can be passed around to functions.
    """

    def __init__(self, rf, fields=None, columns=None, rows=None):
        """
        Input is the SFile instance and a list of column names.
        """

        if columns is None:
            columns = fields

        self.recfile = rf
        self.rows = self.recfile._get_rows2read(rows)
        self.columns = columns

        # alias
        self.__call__ = self.get_subset

    def read(self, split=False):
        """
        Read the data from disk and return as a numpy array
        """

        return self.recfile.read(
            rows=self.rows, columns=self.columns, split=split,
        )

    def get_subset(self, fields=None, columns=None, rows=None):
        """
        Specify subsets of the data.  Returns a new RecfileSubset object.
        """
        if columns is not None:
            self.columns = columns
        elif fields is not None:
            self.columns = fields
        if rows is not None:
            self.rows = rows

        return self.recfile.get_subset(columns=self.columns, rows=self.rows)

    def __repr__(self):
        s = []
        if self.columns is not None:
            c = pprint.pformat(self.columns)
            c = "  " + c.replace("\n", "\n  ")
            s += ["column subset:\n" + c]
        if self.rows is not None:
            r = pprint.pformat(self.rows)
            r = "  " + r.replace("\n", "\n  ")
            s += ["row subset:\n" + r]
        if len(s) > 0:
            s += ["\nfrom file:"]
        s += [self.recfile.__repr__()]
        s = "\n".join(s)
        return s


class RecfileColumnSubset(object):
    """

    A class representing a subset of the the columns on disk.  When called
    with .read() or [ rows ]  the data are read from disk.

    Useful because subsets can be passed around to functions, or chained
    with a row selection.

    This class is returned when using [ ] notation to specify fields in the
    recfile class

        sf = recfile.Open(fname, dtype=dtype)
        colsub = sf[field_list]

    returns aa RecfileColumnSubset object.  To read rows:

        data = colsub[row_list]
        data = colsub.read(rows=row_list)
    to read all, use .read() with no args or [:]
    """

    def __init__(self, rf, fields=None, columns=None):
        """
        Input is the SFile instance and a list of column names.
        """

        if columns is None:
            columns = fields

        self.recfile = rf
        self.columns = columns

    def read(self, rows=None, split=False):
        """
        Read the data from disk and return as a numpy array
        """

        return self.recfile.read(rows=rows, columns=self.columns, split=split)

    def __getitem__(self, arg):
        """
        If columns are sent, then the columns will just get reset and
        we'll return a new object

        If rows are sent, they are read and the result returned.
        """

        # we have to unpack the rows if we are reading a subset
        # of the columns because our slice operator only works
        # on whole rows.  We could allow rows= keyword to
        # be a slice...

        res, isrows, isslice = self.recfile._process_args_as_rows_or_columns(
            arg, unpack=True
        )
        if isrows:
            # rows was entered: read all current column subset
            return self.read(rows=res)

        # columns was entered.  Return a subset objects
        return RecfileColumnSubset(self, columns=res)

    def __repr__(self):
        s = []
        if self.columns is not None:
            c = pprint.pformat(self.columns)
            c = "  " + c.replace("\n", "\n  ")
            s += ["column subset:\n" + c]
        if len(s) > 0:
            s += ["\nfrom file:"]
        s += [self.recfile.__repr__()]
        s = "\n".join(s)
        return s


def split_fields(data, fields=None, getnames=False):
    """
    Name:
        split_fields

    Calling Sequence:
        The standard calling sequence is:
            field_tuple = split_fields(data, fields=)
            f1,f2,f3,.. = split_fields(data, fields=)

        You can also return a list of the extracted names
            field_tuple, names = split_fields(data, fields=, getnames=True)

    Purpose:
        Get a tuple of references to the individual fields in a structured
        array (aka recarray).  If fields= is sent, just return those
        fields.  If getnames=True, return a tuple of the names extracted
        also.

        If you want to extract a set of fields into a new structured array
        by copying the data, see esutil.numpy_util.extract_fields

    Inputs:
        data: An array with fields.  Can be a normal numpy array with fields
            or the recarray or another subclass.
    Optional Inputs:
        fields: A list of fields to extract. Default is to extract all.
        getnames:  If True, return a tuple of (field_tuple, names)

    """

    outlist = []
    allfields = data.dtype.fields

    if allfields is None:
        if fields is not None:
            raise ValueError("Could not extract fields: data has " "no fields")
        return (data,)

    if fields is None:
        fields = allfields
    else:
        if isinstance(fields, str):
            fields = [fields]

    for field in fields:
        if field not in allfields:
            raise ValueError("Field not found: '%s'" % field)
        outlist.append(data[field])

    output = tuple(outlist)
    if getnames:
        return output, fields
    else:
        return output


_major_pyvers = int(sys.version_info[0])


if numpy.lib.NumpyVersion(numpy.__version__) < "1.28.0":
    np_vers = 1
else:
    np_vers = 2


def isstring(obj):
    if _major_pyvers >= 3:
        if np_vers == 2:
            string_types = (str, numpy.str_, numpy.bytes_,)
        else:
            string_types = (str, numpy.str_, numpy.string_)
    else:
        string_types = (str, numpy.string_)

    if isinstance(obj, string_types):
        return True
    else:
        return False


def remove_dtype_byteorder(dtype):

    newdt = []
    for dt in dtype.descr:

        typestr = dt[1][1:]
        if len(dt) == 3:
            dt = (dt[0], typestr, dt[2])
        else:
            dt = (dt[0], typestr)

        newdt.append(dt)

    return newdt


def to_native_inplace(array):
    """
    Convert to native byte ordering in place
    """

    if numpy.little_endian:
        machine_little = True
    else:
        machine_little = False

    data_little = False
    if array.dtype.names is None:
        data_little = is_little_endian(array.dtype)
    else:
        # assume all are same byte order: we only need to find one with
        # little endian
        for fname in array.dtype.names:
            if is_little_endian(array[fname].dtype):
                data_little = True
                break

    if (machine_little and not data_little) or (not machine_little and data_little):  # noqa

        outdata = array.byteswap(True)
        outdata.dtype = outdata.dtype.newbyteorder()


def is_little_endian(dtype):
    """
    Return True if array is little endian. Note strings are neither big
    or little endian.  The input must be a simple numpy array, not
    an array with fields.

    REVISION HISTORY:
        Created 2009, Erin Sheldon, NYU.
    """

    if numpy.little_endian:
        machine_little = True
    else:
        machine_little = False

    byteorder = dtype.base.byteorder
    return (byteorder == "<") or (machine_little and byteorder == "=")
