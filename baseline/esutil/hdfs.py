import os
from sys import stderr


def is_in_hdfs(fname):
    """
    Return true if the file name starts with hdfs://
    """
    if fname.find("hdfs://") == 0:
        return True
    else:
        return False


def exists(hdfs_url):
    """
    Test if the url exists.
    """
    return test(hdfs_url, test="e")


def test(hdfs_url, test="e"):
    """
    Test the url.

    parameters
    ----------
    hdfs_url: string
        The hdfs url
    test: string, optional
        'e': existence
        'd': is a directory
        'z': zero length

        Default is an existence test, 'e'
    """
    command = """hadoop fs -test -%s %s""" % (test, hdfs_url)

    exit_code, stdo, stde = exec_command(command)

    if exit_code != 0:
        return False
    else:
        return True


def stat(hdfs_url):
    """
    stat the hdfs URL, return None if does not exist.

    Returns a dictionary with keys
        filename: base name of file
        blocks: number of blocks
        block_size: size of each block
        mod_date: last modification
        replication: number of copies in hdfs
    """

    command = """
    hadoop fs -stat "{'blocks': %b, 'mod_date': '%y', 'replication': %r, 'filename':'%n'}"
    """  # noqa
    command += hdfs_url

    exit_code, stdo, stde = exec_command(command)

    if exit_code != 0:
        return None
    else:
        return eval(stdo.strip())


def ls(hdfs_url="", recurse=False, full=False):
    """
    List the hdfs URL.  If the URL is a directory, the contents are returned.
    full=True ensures hdfs:// is prepended
    """

    if recurse:
        cmd = "lsr"
    else:
        cmd = "ls"

    command = "hadoop fs -%s %s" % (cmd, hdfs_url)

    exit_code, stdo, stde = exec_command(command)
    if exit_code != 0:
        raise ValueError(
            "command failed with code %s: %s" % (exit_code, command)
        )

    flist = []
    lines = stdo.split(b"\n")
    for line in lines:
        ls = line.split()
        if len(ls) == 8:
            # this is a file description line
            fname = ls[-1]
            if full:
                fname = "hdfs://" + fname
            flist.append(fname)

    return flist


def du(hdfs_url="", total=False, dict=False):
    """
    List the hdfs URL.  The url can be a pattern.

    parameters
    ----------
    hdfs_url: string, optional
        The url
    total: bool, optional
        If True, return tuple (flist, total_bytes)
    dict:
        if True, returna dict keyed by name instead of a list

    outputs
    -------
    The result is a list of dictionaries with name and size, unless
    dict=True is sent
    """

    command = "hadoop fs -du %s" % hdfs_url

    exit_code, stdo, stde = exec_command(command)
    if exit_code != 0:
        raise ValueError(
            "command failed with code %s: %s" % (exit_code, command)
        )

    if dict:
        flist = {}
    else:
        flist = []
    if len(stdo) == 0:
        return flist

    lines = stdo.split(b"\n")

    tot = 0
    for line in lines:
        if len(line) == 0:
            continue
        ls = line.split()
        if len(ls) != 2:
            # for the header
            continue

        sz, name = ls
        sz = int(sz)
        if dict:
            flist[name] = sz
        else:
            flist.append({"name": name, "size": sz})
        tot += sz

    if total:
        return flist, tot
    return flist


def lsr(hdfs_url=""):
    """
    Recursively List the hdfs URL.  This is equivalent to hdfs.ls(url,
    recurse=True)
    """
    ls(hdfs_url, recurse=True)


def read(hdfs_url, reader, verbose=False, **keys):
    with HDFSFile(hdfs_url, verbose=verbose) as fobj:
        return fobj.read(reader, **keys)


def put(local_file, hdfs_url, verbose=False, clobber=False, force=False):
    """
    Copy the local file to the hdfs_url.

    Note, unlike posix cp, intermediate dirs are made automatically as needed

    Ugh, keeping both clobber and force
    """

    if verbose:
        print("hdfs", local_file, "->", hdfs_url, file=stderr)

    if force or clobber:
        if exists(hdfs_url):
            rm(hdfs_url, verbose=verbose)

    command = "hadoop fs -put %s %s" % (local_file, hdfs_url)
    exit_code, stdo, stde = exec_command(command)
    if exit_code != 0:
        raise RuntimeError(
            "Failed to copy to hdfs %s -> %s: %s" % (local_file, hdfs_url, stde)  # noqa
        )


def opent(hdfs_url, tmpdir=None, verbose=False):
    """
    pipe the file from hadoop fs -cat into a temporary file, and then return
    the file object for the temporary file.

    The temporary file is automatically cleaned up when it is closed.
    """
    import subprocess
    from subprocess import PIPE
    import tempfile

    bname = os.path.basename(hdfs_url)
    temp_file = tempfile.NamedTemporaryFile(
        prefix="hdfs-", suffix="-" + bname, dir=tmpdir
    )

    if verbose:
        print("opening: ", hdfs_url,
              "for reading, staging in temp file:",
              temp_file.name, file=stderr)

    command = "hadoop fs -cat %s" % hdfs_url
    pobj = subprocess.Popen(command, stdout=PIPE, stderr=PIPE, shell=True)

    buffsize = 2 * 1024 * 1024
    while True:
        data = pobj.stdout.read(buffsize)
        if len(data) == 0:
            break
        temp_file.write(data)

    # we're done, just need to wait for exit
    ret = pobj.wait()
    if ret != 0:
        raise RuntimeError(
            "Failed to copy to hdfs %s -> %s: %s"
            % (temp_file.name, hdfs_url, pobj.stderr.read())
        )

    temp_file.seek(0)
    return temp_file


def rm(hdfs_url, recurse=False, verbose=False):
    """
    Remove the specified hdfs url
    """
    mess = "removing " + hdfs_url

    if recurse:
        cmd = "rmr"
        mess += " recursively"
    else:
        cmd = "rm"

    if verbose:
        print(mess, file=stderr)

    command = "hadoop fs -%s %s" % (cmd, hdfs_url)
    exit_code, stdo, stde = exec_command(command)
    if exit_code != 0:
        raise RuntimeError("hdfs %s" % stde)


def rmr(hdfs_url, verbose=False):
    """

    Remove the specified hdfs url recursively.  Equivalent to rm(url,
    recurse=True)
    """
    rm(hdfs_url, recurse=True, verbose=verbose)


def mkdir(hdfs_url, verbose=False):
    """
    Equivalent of mkdir -p in unix
    """
    if verbose:
        print("mkdir", hdfs_url, file=stderr)

    command = "hadoop fs -mkdir " + hdfs_url
    exit_code, stdo, stde = exec_command(command)
    if exit_code != 0:
        raise RuntimeError("hdfs %s" % stde)


class HDFSFile:
    """
    A class to help get files in and out of the Hadoop Distributed File System.


    parameters
    ----------
    hdfs_url: string
        The URL of an hdfs file. Note if it begins with hdfs:// it must be an
        absolute path name, otherwise it references your home directory.

    verbose: bool
        Tell what is going on.  Default False.


    Examples
    --------

        General usage
        -------------

        The best way to use an HDFSFile:

            with hdfs.HDFSFile(hdfs_url) as fobj:
                do things with fobj

        This guarantees the cleanup is run after the with block, and guarantees
        no problems with reference counting.

        In the following examples we will use this approach.  But if you are
        using an older python you'll have to run the cleanup() method to make
        sure things get cleaned up.


        Staging a file for local read
        -----------------------------

        This copies the hdfs file to a local file.  The name of the local file
        is stored in the "localfile" attribute.

            # stage the file to a local temporary file
            with hdfs.HDFSFile(hdfs_url) as hdfile:
                hdfile.stage()

                # this will read from the local file
                with open(hdfile.localfile) as fobj:
                    data = fobj.read()

        The file local is automatically cleaned up after exiting the "with"
        context. You can clean up the local file manually by running the
        .cleanup() method.


        Reading a file with a reader object
        -----------------------------------

        Suppose you a function or method that has the following signature:

            (filename, **keys)

        then you can do the following:

            with hdfs.HDFSFile(hdfs_url) as hdfile:
                data = hdfile.read(reader, **keys)

        Under the hood the file is staged locally and the reader is used to
        grab the data.  The local file is cleaned up.


    """

    def __init__(self, hdfs_url, verbose=False, tmpdir=None):
        self.hdfs_url = hdfs_url
        self.verbose = verbose
        self.tmpdir = tmpdir

        self.set_localfile()

    def set_localfile(self):
        self.localfile = self.temp_filename(self.hdfs_url, tmpdir=self.tmpdir)

    def stage(self):
        """
        Stage a file out of hdfs to a temporary file.
        """

        command = "hadoop fs -get %s %s" % (self.hdfs_url, self.localfile)

        if self.verbose:
            print("staging", self.hdfs_url, "->", self.localfile, file=stderr)

        exit_code, stdo, stde = exec_command(command)

        if exit_code != 0:
            raise RuntimeError(
                "Failed to copy from hdfs %s -> %s: %s"
                % (self.hdfs_url, self.localfile, stde)
            )

        if not os.path.exists(self.localfile):
            raise RuntimeError(
                "In copy from hdfs %s -> %s, local copy not found"
                % (self.hdfs_url, self.localfile)
            )

        return self.localfile

    def put(self, **keys):
        """
        This is when we have some data written by an external program, just
        need to put it

        Might want to rethink the cleanup=True default

        parameters
        ----------
        clobber: bool, optional
            Over-write file in hdfs if already exists
        verbose: bool, optional
            print information
        """
        try:
            put(self.localfile, self.hdfs_url, verbose=self.verbose, **keys)
        finally:
            cleanup = keys.get("cleanup", True)
            if cleanup:
                self.cleanup()

    def read(self, reader, **keys):
        """
        Use the input reader to read the hdfs file.

        The file is first staged locally; the temporary file will be cleaned up
        unless you send cleanup=False.  Not cleaning is useful for debugging
        your reader.

        parameters
        ----------
        reader: method
            The reader must have a (fname, **keys) signature.
        cleanup: bool
            If True, the temporary file is removed before exiting.
            Default is True.

        other keywords:
            These are passed on to the reader.
        """

        self.stage()

        try:
            data = reader(self.localfile, **keys)
        finally:
            cleanup = keys.get("cleanup", True)
            if cleanup:
                self.cleanup()

        return data

    def write(self, writer, data, **keys):
        """
        Write the input data to the output file using the specified
        writer.

        The file is first written locally; the temporary file will be cleaned
        up unless you send cleanup=False.  Not cleaning is useful for debugging
        your writer.

        parameters
        ----------
        writer: method
            The writer must have a (fname, data, **keys) signature.
        data: object
            An object to be written.
        cleanup: bool, optional
            If True, the temporary file is removed before exiting.
            Default is True.
        other keywords:
            These are passed on to the writer.
        """

        if exists(self.hdfs_url):
            clobber = keys.get("clobber", False)
            if clobber:
                if self.verbose:
                    print(
                        "removing existing hdfs file:",
                        self.hdfs_url, file=stderr,
                    )
                rm(self.hdfs_url)
            else:
                raise ValueError(
                    "hdfs file already exists: %s, "
                    "send clobber=True to remove" % self.hdfs_url
                )

        try:
            writer(self.localfile, data, **keys)
            put(self.localfile, self.hdfs_url, verbose=self.verbose)
        finally:
            cleanup = keys.get("cleanup", True)
            if cleanup:
                self.cleanup()

    def temp_filename(self, fname, tmpdir=None):
        import tempfile

        bname = os.path.basename(fname)
        tfile = tempfile.mktemp(prefix="hdfs-", suffix="-" + bname, dir=tmpdir)
        return tfile

    def cleanup(self):
        if self.localfile is not None:
            if os.path.exists(self.localfile):
                if self.verbose:
                    print("removing staged file", self.localfile, file=stderr)
                os.remove(self.localfile)

            self.localfile = None

    def __enter__(self):
        return self

    def __exit__(self, exception_type, exception_value, traceback):
        self.cleanup()

    def __del__(self):
        self.cleanup()


def exec_command(command):
    """
    Execute the command and return the exit status.
    """
    import subprocess
    from subprocess import PIPE

    pobj = subprocess.Popen(command, stdout=PIPE, stderr=PIPE, shell=True)

    stdo, stde = pobj.communicate()
    exit_code = pobj.returncode

    return exit_code, stdo, stde
