import sys
import os
import numpy

lower_default = True

__doc__ = """
    NAME
        oracle_util
    PURPOSE

        Defines a wrapper class for cx_Oracle and some utility functions,
        including the ability to convert the results of an oracle query to
        numerical python (NumPy) arrays.

        This is pure python code.  This is rather inefficient because
        cx_Oracle must first convert the results to python objects and then
        they must be converted to NumPy arrays.  A more efficient version
        would wrap the C API and convert directly to NumPy arrays.

        Also, I had to hack cx_Oracle to replace None objects with something
        that Numpy can convert.  I chose generically -9999 which seems to
        work for the use cases I've seen.  Ask me for the hacked code.

    CLASSES
        Connection(conninfo=defconn):  Wrapper for a cx_Oracle connection.
        CLASS METHODS
            Execute(query)
                Execute the query and return the results in a NumPy array
                if appropriate
            Quick(query, limit=None)
                Execute the query and display the results in a nice format.
                Use the limit= keyword to limit the number of results
                displayed.
            Describe(table, columns=None)
                Print a description of the requested table
            Connect(conninfo=defconn):
                Make a new connection, closing the existing one if necessary
            Close():
                Close the connection

    FUNCTIONS
        Cursor2Array(oracle_cursor, dtype=None)
            Convert an cx_ Oracle cursor object into a NumPy array.  If the
            dtype is not given, the description field is converted to a NumPy
            type list using the NumpyDescriptor() function.
        Res2Array(fetched_results, dtype=None)
            Convert fetched results from a cx_ Oracle cursor object into a
            NumPy array.  The dtype can be gotten by running the
            NumpyDescriptor() function on the cursor.description field.  This
            is less efficient that using Cursor2Array since extra memory is
            used in the fetching process.
        NumpyDescriptor(oracle descriptioin list)
            Convert a list of cx_ Oracle descriptions to a list of NumPy type
            descriptions.  This cx_Oracle description list is gotten from the
            cursor description field
                cursor.description
        NumpyType(oracle description)
            Convert a cx_Oracle description to a NumPy type description.  This
            is an element of the cursor.description list.
        PrintCursor(cursor, limit=None, maxwidth=30)
            Print a pretty formatted version of the data contained in the input
            cursor.  Limit the number of printed rows with limit, and alter
            the maximum width of a row with maxwidth.  Note if limit is sent
            the cursor might still have rows to be fetched.

    REQUIREMENTS
        cx_Oracle http://cx-oracle.sourceforge.net/
        NumPy if you want that functionality http://www.scipy.org/NumPy
    REVISION HISTORY
        Created 2008-07-09, Erin Sheldon, NYU

"""

if "ORACLE_CONNINFO" in os.environ:
    defconn = os.environ["ORACLE_CONNINFO"]
else:
    defconn = ""

_defs = {}
_defs["f4_digits"] = 6
_defs["f8_digits"] = 15


_binary_err = "size of %s not allowed for BINARY floating point types"

_flt_digits_err = """WARNING: Digits for field "%s" of %s exceeds that of an
8-byte floating point
Setting to type "f16" which may or may not exceed 8-bytes in size,
depending on your platform\n"""

_int_digits_err = """WARNING: Digits for field "%s" of %s exceeds largest available
(18 digits for 8-byte binary integer).  Setting to 8-byte integer\n"""

_string_err = 'The size of field "%s" is %s but must be greater than zero'


class Connection(object):
    """
    CLASS
        oracle_util.Connection(conninfo=default, f4_digits=6, f8_digits=15)
    PURPOSE
        A wrapper class for a cx_Oracle connection that defines some methods
        for working quickly with queries and tables.
    INPUTS
        conninfo:  A string containing the connection info.  The format
            should be
                user/password@host.address/dsn
            Where dsn is the data source name.  The default connection info
            is taken from the ORACLE_CONNINFO environment variable if it
            exists, otherwise it is set to ""
        f4_digits, f8_digits:  The number of digits to demand when converting
            to these types from number(digits,n).  The default is 6 or less
            for floats and 7-15 for double, e.g. f4_digits=6, f8_digits=15
            For example if you want everything to be double use f4_digits=0
    CLASS METHODS
        Execute(query)
            Execute the query and return the results in a NumPy array
            if appropriate
        Quick(query, limit=None)
            Execute the query and display the results in a nice format.
            Use the limit= keyword to limit the number of results displayed.
        Describe(table, columns=None)
            Print a description of the requested table
        Connect(conninfo=defconn):
            Make a new connection, closing the existing one if necessary

    Examples
        # read from a table into a NumPy array and work with the data
        import oracle_util
        o=oracle_util.Connection()
        o.Describe('objects')
        arr=o.Execute('select field1, field3 from objects')
        print(arr['field1'])
        newarray = arr['field1']*arr['field2']
        prit newarray
    """

    def __init__(
        self,
        f4_digits=_defs["f4_digits"],
        f8_digits=_defs["f8_digits"],
        conninfo=defconn,
    ):
        import cx_Oracle as cxo  # noqa

        self.conn = cxo.connect(conninfo)
        self.f4_digits = f4_digits
        self.f8_digits = f8_digits

    def test(self):

        tilename = "BCS2316-5455"
        run = "BCS20080710_BCS2316-5455"
        query = """
            SELECT
                cobj.coadd_objects_id, cobj.alpha_j2000, cobj.delta_j2000,
                cobj.x_image, cobj.y_image
            FROM
                coadd_objects cobj, catalog cat
            WHERE
                cat.id = cobj.catalogid_i
                    AND cat.tilename = '%s'
                    AND cat.run = '%s'
                    AND rownum <= 10
            """ % (
            tilename,
            run,
        )

        sys.stdout.write("\nExecuting query: " + query + "\n\n\n")
        self.Quick(query)

        query = """
            SELECT
                id,tilename,band,run
            FROM
                coadd
            WHERE
                tilename='%s'
                    AND band='g'
                    AND run='%s'
            """ % (
            tilename,
            run,
        )

        sys.stdout.write("\nExecuting query: " + query + "\n\n\n")
        self.Quick(query)

        query = """
            SELECT
                image.parentid
            FROM
                image,coadd_src
            WHERE
                coadd_src.coadd_imageid=5427611
                    AND coadd_src.src_imageid=image.id
            """

        sys.stdout.write("\nExecuting query: " + query + "\n\n\n")
        self.Quick(query)

    def Connect(self, conninfo=defconn):
        """
        Create a new connection, closing the old one if necessary
        """
        import cx_Oracle as cxo  # noqa

        # might not be open
        try:
            self.conn.close()
        except Exception:
            pass
        self.conn = cxo.connect(conninfo)

    def Close(self):
        """
        Close the connection.
        """
        try:
            self.conn.close()
        except Exception:
            pass

    def Describe(self, table, columns=None, verbose=False):
        """
        NAME
            Describe(table, columns=None, verbose=False)
        PURPOSE
            Print a simple description of the input table.  If the columns
            keyword is sent, then just print the description of that column
            or list of columns
        """
        q = """
            SELECT
                column_name,
                CAST(data_type as VARCHAR2(15)) as type,
                CAST(data_length as VARCHAR(6)) as length,
                CAST(data_precision as VARCHAR(9)) as precision,
                CAST(data_scale as VARCHAR(5)) as scale,
                CAST(nullable as VARCHAR(8)) as nullable
            FROM
                all_tab_columns
            WHERE
                table_name = '%s'
                AND column_name <> 'TNAME'
                AND column_name <> 'CREATOR'
                AND column_name <> 'TABLETYPE'
                AND column_name <> 'REMARKS'"""

        if columns is not None:
            q = (
                q
                + """
                AND column_name IN ("""
            )
            if isinstance(columns, str):
                tc = [columns]
            else:
                tc = columns
            tc = ["'" + c.upper() + "'" for c in tc]
            tc = ",".join(tc)
            q += tc + ")"

        q = (
            q
            + """
            ORDER BY
                column_id
        """
        )

        q = q % (table.upper(),)

        if verbose:
            sys.stdout.write("%s\n" % q)

        curs = self.conn.cursor()
        curs.execute(q)
        PrintCursor(curs)

        # now indexes

        q = (
            """
            select
                index_name, column_name, column_position, descend
            from
                all_ind_columns
            where
                table_name = '%s' order by index_name, column_position
        """
            % table.upper()
        )

        curs.execute(q)
        PrintCursor(curs)

        curs.close()

    def Execute(
        self,
        query,
        cursor=False,
        f4_digits=None,
        f8_digits=None,
        dictlist=False,
        lower=lower_default,
    ):
        """

        Does job of executing the query, converting to a numpy array or list of
        dictionaries if appropriate, and returns the result.  If cursor=True
        then the cursor object is returned instead of a numpy array.

        """

        if f4_digits is None:
            f4_digits = self.f4_digits
        if f8_digits is None:
            f8_digits = self.f8_digits

        curs = self.conn.cursor()
        curs.execute(query)
        if cursor:
            return curs

        if dictlist:
            return Cursor2Dictlist(curs, lower=lower)

        result = Cursor2Array(
            curs, f4_digits=f4_digits, f8_digits=f8_digits, lower=lower
        )
        if result.size == 0:
            result = None

        curs.close()
        return result

    def Quick(self, query, fname=None, limit=None, maxwidth=30):
        """
        NAME
            Quick(query, fname=None, limit=None)
        PURPOSE
            Execute the query and display the results in a nice format.
            Use the limit= keyword to limit the number of results
            displayed.

        """

        curs = self.conn.cursor()
        curs.execute(query)

        PrintCursor(curs, fname=fname, limit=None, maxwidth=maxwidth)
        curs.close()

        return None

    def GetConnection(self):
        return self.conn

    def GetCursor(self):
        return self.conn.cursor()


def NumpyType(odesc,
              f4_digits=_defs["f4_digits"],
              f8_digits=_defs["f8_digits"]):
    """
    NAME
        NumpyType
    PURPOSE
        Convert a cx_Oracle field description list into a NumPy type.
    USAGE
        nt = NumpyType(oracle_field_description, f4_digits=6, f8_digits=15)

    INPUTS
        oracle_field_description:  This is an element of the cx_Oracle
            description list.  This list is gotten from the cursor object:
                cursor.description
            An element of this list contains the following:
                (name, cx_Oracle_type, display_size, internal_size,
                precision, scale, null_ok)
        f4_digits, f8_digits:  The number of digits to demand when converting
            to these types from number(digits,n).  The default is 6 or less
            for floats and 7-15 for double, e.g. f4_digits=6, f8_digits=15
            For example if you want everything to be double use f4_digits=0
    Currently recognizes the following cx_Oracle types
        NATIVE_FLOAT.  This corresponds to the Oracle types
            BINARY_FLOAT and BINARY_DOUBLE
        NUMBER with various precision, both floating point and fixed point
            NUMBER(p,s) is floating point, NUMBER(p) is integer
        STRING and character arrays of variable and fixed length. Some
            maximum length must be specified, but this is always the case
            for cx_Oracle description lists

        Be warned that Oracle supports precisions of both integers and
        floats that is far beyond the standard data types.  In these cases
        the integer size is set to 64-bit and the floating type is set to
        128 bit, but note that the 128 bit float type in numerical python is
        in practice usually limited to less precision.
    """

    import cx_Oracle as cxo  # noqa

    name = odesc[0]
    otype = odesc[1]
    size = odesc[3]
    digits = odesc[4]
    scale = odesc[5]
    if otype == cxo.NATIVE_FLOAT:
        # This one is easy: sizes indicate everything!
        if size == 4:
            Ntype = "f4"
        elif size == 8:
            Ntype = "f8"
        else:
            raise ValueError(_binary_err % (size,))
    elif otype == cxo.NUMBER:
        if scale != 0:
            if digits <= f4_digits:
                Ntype = "f4"
            elif digits <= f8_digits:
                Ntype = "f8"
            else:
                sys.stdout.write(_flt_digits_err % (name, digits))
                Ntype = "f16"
        else:
            if digits == 0:
                Ntype = "i8"
            elif digits <= 4:
                Ntype = "i2"
            elif digits <= 9:
                Ntype = "i4"
            elif digits <= 18:
                Ntype = "i8"
            else:
                sys.stdout.write(_int_digits_err % (name, digits))
                Ntype = "i8"

    elif otype == cxo.STRING:
        if size <= 0:
            raise ValueError(_string_err % (name, size))
        Ntype = "S" + str(size)
    else:
        if size <= 0:
            raise ValueError(_string_err % (name, size))
        Ntype = "S" + str(size)
        # raise ValueError,'Unsupported data type: '+repr(otype)

    return Ntype


def NumpyDescriptor(
    odesc,
    f4_digits=_defs["f4_digits"],
    f8_digits=_defs["f8_digits"],
    lower=lower_default,
):
    """
    NAME
        NumpyDescriptor(cx_Oracle_description, f4_digits=6, f8_digits=15,
                        lower=True)
    PURPOSE
        Convert a list of cx_ Oracle descriptions to a list of NumPy type
        descriptions.  This cx_Oracle description list is gotten from the
        cursor description field
            cursor.description
        See NumpyType for the the conversion process.

        f4_digits, f8_digits:  The number of digits to demand when converting
            to these types from number(digits,n).  The default is 6 or less
            for floats and 7-15 for double, e.g. f4_digits=6, f8_digits=15
            For example if you want everything to be double use f4_digits=0
        lower: If True then all names are converted to lower case
    """
    dtype = []

    for d in odesc:
        name = d[0]
        if lower:
            name = name.lower()
        Ntype = NumpyType(d, f4_digits=f4_digits, f8_digits=f8_digits)
        dtype.append((name, Ntype))

    return dtype


def Res2Array(res, dtype):
    """
    NAME
        Res2Array(res, dtype)
    PURPOSE
        Convert fetched results from a cx_ Oracle cursor object into a NumPy
        array.  The dtype can be gotten by running the NumpyDescriptor()
        function on the cursor.description field.  This is less efficient that
        using Cursor2Array since extra memory is used in the fetching process.
    EXAMPLES
        curs=conn.cursor()
        curs.execute(query)
        dtype=NumpyDescriptor(curs.description)
        res=curs.fetchall()
        arr = Res2Array(curs, dtype)
    """

    arr = numpy.array(res, dtype=dtype)
    return arr


def Cursor2Array(
    curs,
    dtype=None,
    f4_digits=_defs["f4_digits"],
    f8_digits=_defs["f8_digits"],
    lower=lower_default,
):
    """
    NAME
        Cursor2Array(curs, dtype=None, f4_digits=6, f8_digits=15, lower=True)
    PURPOSE
        Convert an cx_ Oracle cursor object into a NumPy array.  If the
        dtype is not given, the description field is converted to a NumPy
        type list using the NumpyDescriptor() function.  This is more
        efficient than using Res2Array since no extra memory is used.

        f4_digits, f8_digits:  The number of digits to demand when converting
            to these types from number(digits,n).  The default is 6 or less
            for floats and 7-15 for double, e.g. f4_digits=6, f8_digits=15
            For example if you want everything to be double use f4_digits=0
    EXAMPLES
        curs=conn.cursor()
        curs.execute(query)
        arr = Cursor2Array(curs)
    """
    if dtype is None:
        dtype = NumpyDescriptor(
            curs.description, f4_digits=f4_digits,
            f8_digits=f8_digits, lower=lower
        )
    arr = numpy.fromiter(curs, dtype=dtype)
    return arr


def Cursor2Dictlist(curs, lower=lower_default):
    if curs is None:
        return None

    keys = []
    for d in curs.description:
        key = d[0]
        if lower:
            key = key.lower()
        keys.append(key)

    output = []
    for row in curs:
        tmp = {}
        i = 0
        for val in row:
            tmp[keys[i]] = val
            i += 1
        output.append(tmp)

    return output


def PrintCursor(curs, delim=" ", fname=None, limit=None, maxwidth=30):
    """
    NAME
        PrintCursor(curs, limit=None, maxwidth=30)
    PURPOSE
        Print a pretty formatted version of the data in the input
        cursor.  Limit the number of printed rows with limit, and alter
        the maximum width of a row with maxwidth.  Note if limit is sent
        the cursor might still have rows to be fetched.
    """

    if fname is None:
        isfile = False
        fout = sys.stdout
    else:
        isfile = True
        fout = open(fname, "w")

    # build up a format string
    formats = []
    separators = []
    names = []
    for d in curs.description:
        dsize = d[2]
        if dsize > maxwidth:
            dsize = maxwidth

        formats.append("%" + repr(dsize) + "s")
        names.append(d[0])
        separators.append("-" * dsize)

    format = delim.join(formats)

    count = 0
    for row in curs:
        if ((count % 50) == 0) and (not isfile):
            fout.write("\n")
            fout.write(format % tuple(names))
            fout.write("\n")
            fout.write(format % tuple(separators))
            fout.write("\n")

        fout.write(format % row)
        fout.write("\n")

        count += 1
        if (limit is not None) and (count == limit):
            break


def Numpy2Tabledef(descr, table_name, def_dict={}):
    """
    Convert a numpy descriptor to oracle table def

    array columns are converted to name_{dim1}_{dim2}...{dimn}
    """

    if def_dict is None:
        def_dict = {}

    defs = []
    def_template = "%s %s not null"
    for d in descr:
        name = d[0]
        ot = get_oracle_type(d[1])

        if name in def_dict:
            defs += def_dict[name]
        elif len(d) == 2:
            # this is a scalar column... easy!
            defi = def_template % (name, ot)
            defs.append(defi)
        else:
            dims = d[2]
            if not isinstance(dims, tuple):
                dims = (dims,)
            names = get_arr_colnames(name, dims)

            for n in names:
                defi = def_template % (n, ot)
                defs.append(defi)

    defs = ",\n".join(defs)

    statement = """
create table {table_name} (
{defs}
) compress\n""".format(
        table_name=table_name, defs=defs
    )

    return statement


def get_arr_colnames(name, dims):
    """
    Get db names for an array, naming
        name_{num1}_{num2}...
    """
    ndim = len(dims)
    if ndim == 1:
        names = get_arr1_colnames(name, dims)
    elif ndim == 2:
        names = get_arr2_colnames(name, dims)
    else:
        raise ValueError("only support 1 and 2 d arrays")

    return names


def get_arr1_colnames(name, dims):
    """
    Get db names for an array, naming
        name_{num}
    """
    names = []
    for n in range(1, dims[0] + 1):
        names.append("%s_%d" % (name, n))

    return names


def get_arr2_colnames(name, dims):
    """
    Get db names for an array, naming
        name_{num1}_{num2}
    """
    names = []
    for n1 in range(1, dims[0] + 1):
        for n2 in range(1, dims[1] + 1):
            names.append("%s_%d_%d" % (name, n1, n2))

    return names


def get_oracle_type(nt):
    if "f4" in nt:
        ot = "binary_float"
    elif "f8" in nt:
        ot = "binary_double"
    elif "i1" in nt or "u1" in nt:
        ot = "number(3)"
    elif "i2" in nt or "u2" in nt:
        ot = "number(5)"
    elif "i4" in nt:
        ot = "number(10)"
    elif "i8" in nt:
        ot = "number(19)"
    elif "u8" in nt:
        ot = "number(20)"
    elif "S" in nt:
        slen = nt[1:]
        ot = "varchar(%s)" % slen
    else:
        raise ValueError("unsupported numpy type: '%s'" % nt)

    return ot
