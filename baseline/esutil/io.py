"""
Some functions to simplify input and output to various file types.

The functions most users will use:

    read():
        Provide a single interface to read from a variety of file types.
        Supports reading from a list of files.
    read_header():
        Read just a header, if the file type suppots headers.  equivalent to
        read(..., header='only')

    write()
        Provide a single interface to write a variety of file types.
        Not yet implemented.

Created late 2009 Erin Sheldon, Brookhaven National Laboratory.  See docs
for individual methods for revision history.

"""
from __future__ import print_function


from . import numpy_util
from . import json_util
from . import xmltools
from . import sfile
from . import ostools
from . import hdfs
from .hdfs import is_in_hdfs
import os

fits_package = None
try:
    import fitsio

    fits_package = "fitsio"
except ImportError:
    try:
        import astropy.io.fits as pyfits

        fits_package = "pyfits"
    except ImportError:
        try:
            import pyfits

            fits_package = "pyfits"
        except ImportError:
            pass

try:
    import yaml

    have_yaml = True
except ImportError:
    have_yaml = False


def read_header(fileobj, **keys):
    """
    read the header from a file.

    This function is equivalent to io.read(.., header='only').  See the io.read
    function for a description of accepted keywords.

    """
    keys["header"] = "only"
    return read(fileobj, **keys)


def read(fileobj, **keywords):
    """
    Name:
        io.read

    Usage:
        import esutil
        data = esutil.io.read(
            filename/fileobject,
            typ=None,
            ext=0,
            rows=None, fields=None, columns=None,
            header=False,
            combine=False,
            view=None,
            lower=False, upper=False,
            noroot=True, seproot=False,
            verbose=False,
            ensure_native=False)

    Purpose:
        Provide a single interface to read from a variety of file types.
        Supports reading from a list of files.


    Inputs:
        filename/fileobject:
            File name or an open file object.  Can also be a sequence.  If a
            sequence is input, the return value will, by default, be a list of
            results.  If the return types are numpy arrays, one can send the
            combine=True (the default) keyword to combine them into a single
            array as long as the data types match.

    Keywords:
        type:
            A string describing the file type, see below.  If this is not sent,
            then the file type is determined from the file extension.
        ext:
            The file extension.  If multiple extensions are supported by the
            file type, such as for FITS, then use this keyword to select which
            is to be read. Default is the first extension with data.

        rows:
            For numpy record-type files such as FITS binary tables or simple
            REC files, setting this keyword will return a subset of the rows.
            For FITS, this requires reading the entire file and selecting a
            subset.  For REC files only the requested rows are read from disk
            by using the recfile package.  Default is all rows.

        fields=, columns=:
            For numpy record-type files such as FITS binary tables or simple
            REC files, return a subset of the columns or fields.  The keywords
            "fields" and "columns" are synonyms.  For FITS, this requires
            reading the entire file and selecting a subset.  For REC files only
            the requested rows are read from disk by using the recfile package.
            Default is all columns.

        header:
            If True, and the file type supports header+data, return a tuple
            (data, header).  Can also be 'only' in which case only the header
            is read and returned (rec and fits only for now).  Default is
            False.

        combine:  If a list of filenames/fileobjects is sent, the default
            behavior is to return a list of data.  If combine=True and the
            data are numpy arrays, attempt to combine them into a single
            array.  Only works if the data types match.  Default True
        view:  If the result is derived from a numpy array, set this to
            pick the view.  E.g. pyfits returns a special pyfits type for
            binary table.  You can request a simple numpy array with fields
            by setting view=numpy.ndarray, or a numpy recarray type with
            view=numpy.recarray

        lower,upper:  For FITS files, if true convert the case of the
            fields to all lower or all upper.  Certain FITS writers
            tend to write all fields names as capitals which can result
            in annoyance.

        noroot:  For XML files, do not return the root name as the base
            name in the dictionary.  Default is True
        seproot: For XML files, return a tuple (data, rootname) instead of
            just the data under the root.

        ensure_native: For numpy arrays, make sure data is in native
            byte ordering.

    Currently Supported File Types:
        fits
            Flexible Image Transport System
        rec
            Simple ascii header followed by data in binary or text form. These
            files can be written/read using the esutil.sfile module.  REC files
            support appending rows.  Also supports reading sub-selections of
            rows and columns.
        xml
            Extensible Markup Language
        json
            JavaScript Object Notation.  Less flexible than XML but more useful
            in most practical situations such as storing inhomogeneous data in
            a portable way.
        yaml
            A nice, human readable markup language, especially useful
            for configuration files.  YAML stands for
                YAML Ain't Markup Language
        pyobj
            A straight dump of an object to disk using it's repr().  Files are
            written using pprint, read simply using eval(open(file).read()).

            This is not secure so use with caution.


    Revision History:
        Use **keywords for input and for sending to all called methods. Much
        more flexible when adding new keywords and file types.
        2010
    """

    verbose = keywords.get("verbose", False)

    # If input is a sequence, read them all.
    if isinstance(fileobj, (list, tuple)):

        flist = fileobj
        nfiles = len(flist)

        if nfiles == 1:
            return read(flist[0], **keywords)

        combine = keywords.get("combine", True)

        # we want to default to verbose in terms of showing progress
        verbose_progress = keywords.get("verbose", True)

        # a list was given
        alldata = []
        for i, f in enumerate(flist):
            if verbose_progress:
                print("reading %d/%d %s" % (i + 1, nfiles, f))

            # note, only fields/columns is being passed on but not rows
            # also note seproot is not being passed on
            data = read(f, **keywords)
            alldata.append(data)

        if combine:
            fn, fobj, type, fs = _get_fname_ftype_from_inputs(
                fileobj[0], **keywords
            )
            if type == "fits" or type == "rec":
                # this will only work if the all data has the
                # same structure
                alldata = numpy_util.combine_arrlist(alldata)
        return alldata

    # a scalar was input
    fname, fobj, type, fs = _get_fname_ftype_from_inputs(fileobj, **keywords)

    if fs == "hdfs":
        with hdfs.HDFSFile(fname, verbose=verbose) as hdfs_file:
            data = hdfs_file.read(read, **keywords)
        return data
    else:
        if verbose:
            print("reading:", fname)

    # pick the right reader based on type
    try:
        if type == "fits":
            data = read_fits(fobj, **keywords)
        elif type == "json":
            data = json_util.read(fobj, **keywords)
        elif type == "yaml":
            data = read_yaml(fobj, **keywords)
        elif type == "rec":
            data = read_rec(fobj, **keywords)
        elif type == "xml":
            data = read_xml(fobj, **keywords)
        elif type == "pyobj":
            data = read_pyobj(fobj, **keywords)
        else:
            raise ValueError("Don't know about file type '%s'" % type)
    finally:
        pass

    return data


def write(fileobj, data, **keywords):
    """
    Name:
        io.write
    Purpose:
        Provide a single interface to write a variety of file types.


    Usage:
        import esutil
        esutil.io.write(fileobj, data, **keywords)

    Inputs:
        filename/object:
            File name or an open file object.  If type= is not sent, file
            type is determined from the name of the file.
        data:
            Data that can be written to indicated file type. E.g. for
            FITS files this should be a numpy array or a fits object.

    Optional Inputs:
        type:
            Indicator of the file type, e.g. 'fits', see below.  If None, the
            type is determined from the file name.
        header:
            If not None, write the header to the file if supported.

    There are other keywords for the individual writers.

    Currently Supported File Types:
        fits
            Flexible Image Transport System

            extra write keywords (if using fitsio)
                extname: a name for the new extension
                units: units for each column in tables
                compress: compression scheme for images
                header: a header to write
                clobber: remove any existing file
        rec
            Simple ascii header followed by data in binary or text form. These
            files can be written/read using the esutil.sfile module.  REC files
            support appending rows.  Also supports reading sub-selections of
            rows and columns.

            extra write keywords
                header: a header to write
                append: append rows instead of clobbering
                delim: If not None, write ascii data with the specified
                    delimiter
                padnull:
                    When writing ascii, replace Null characters with spaces.
                ignorenull: When writing ascii, ignore Null characters. Note
                    you won't be able to read the data back in, but it is
                    useful for things like sqlite database input.

        xml
            Extensible Markup Language.  Extra keyword roottag= gives
            a root tag name.  If not sent, it is assumed the input
            is a dict and the first key found is the root.
        json
            JavaScript Object Notation.  Less flexible than XML but more useful
            in most practical situations such as storing inhomogeneous data in
            a portable way.
        yaml
            A nice, human readable markup language, especially useful
            for configuration files.  YAML stands for
                YAML Ain't Markup Language
        pyobj
            A straight dump of an object to disk using it's repr().  Files are
            written using pprint, read simply using eval(open(file).read()).

            This is not secure so use with caution.


    """

    verbose = keywords.get("verbose", False)

    # a scalar was input
    fname, fobj, type, fs = _get_fname_ftype_from_inputs(fileobj, **keywords)

    if verbose:
        print("writing:", fname)

    if fs == "hdfs":
        with hdfs.HDFSFile(fname, verbose=verbose) as hdfs_file:
            hdfs_file.write(write, data, **keywords)
        return

    try:
        # pick the right reader based on type
        if type == "fits":
            write_fits(fobj, data, **keywords)
        elif type == "yaml":
            write_yaml(fobj, data, **keywords)
        elif type == "xml":
            write_xml(fobj, data, **keywords)
        elif type == "json":
            json_util.write(data, fobj, **keywords)
        elif type == "rec":
            write_rec(fobj, data, **keywords)
        elif type == "pyobj":
            data = write_pyobj(fobj, data, **keywords)
        else:
            raise ValueError(
                "Need to implement writing file type: %s\n" % type
            )

    finally:
        pass


def read_fits_bz2(fname, **keys):
    import tempfile

    verbose = keys.get("verbose", False)

    bname = os.path.basename(fname)
    bname = bname.replace(".fits.bz2", "")
    bname = bname.replace(".fit.bz2", "")

    prefix = bname + "-"
    suffix = ".fits"
    tmp_name = tempfile.mktemp(prefix=prefix, suffix=suffix)

    tmp_name = tmp_name.replace(".bz2", "")

    if verbose > 1:
        print("unzipping to:", tmp_name)
    os.system("bzcat %s > %s" % (fname, tmp_name))

    try:
        res = read_fits(tmp_name, **keys)
    finally:
        if verbose > 1:
            print("cleaning up:", tmp_name)
        os.remove(tmp_name)

    return res


def read_fits(fname, **keywords):
    """
    Name:
        read_fits
    Purpose:
        Read data from a single fits file.
    Calling Sequence:
        data=read_fits(fname, **keywords)
    Inputs:
        fname: The file name
    Keywords:
        ext: Which extension, or HDU, to read.  Default first with data.
        view: What view of the data to return. Default is numpy.ndarray
        header:  Return the data,header tuple?  Default False.
        rows:  Subset of the rows to return if reading a binary table
          extension.
        columns:  Subset of the columns to return if reading a binary table.
        fields: synonymous with columns
        lower: Force the field names to be lower case.
        upper: Force the field names to be upper case.
        ensure_native:  FITS always stores big-endian byte order.  Sending
            ensure_native=True forces the byte ordering to be machine native.
    Example:
        import esutil
        data=esutil.io.read('test.fits', ext=1, )
    """

    import numpy

    if fname[-4:] == ".bz2":
        return read_fits_bz2(fname, **keywords)

    if fits_package is None:
        raise ImportError("Could not import fitsio or pyfits")

    if fits_package == "fitsio":
        result = read_fits_fitsio(fname, **keywords)
    elif fits_package == "pyfits":
        result = read_fits_pyfits(fname, **keywords)
    else:
        raise ValueError("expected fitsio or pyfits")

    h = None
    if isinstance(result, tuple):
        d, h = result
    elif keywords.get("header") == "only":
        return result
    else:
        d = result

    lower = keywords.get("lower", False)
    upper = keywords.get("upper", False)

    if lower:
        d.dtype.names = [n.lower() for n in d.dtype.names]
    elif upper:
        d.dtype.names = [n.upper() for n in d.dtype.names]

    view = keywords.get("view", numpy.ndarray)
    if view is not None:
        d = d.view(view)

    ensure_native = keywords.get("ensure_native", False)
    if ensure_native:
        numpy_util.to_native(d, inplace=True)

    if h is not None:
        return d, h
    else:
        return d


def read_fits_fitsio(fname, **keywords):
    ext = keywords.get("ext", None)
    rows = keywords.get("rows", None)
    columns = keywords.get("columns", None)
    fields = keywords.get("fields", None)
    header = keywords.get("header", False)

    if columns is None and fields is not None:
        columns = fields

    if header == "only":
        return fitsio.read_header(fname, **keywords)
    else:
        return fitsio.read(
            fname, ext=ext, rows=rows, columns=columns, header=header
        )


def read_fits_pyfits(fname, **keywords):
    import numpy

    header = keywords.get("header", False)
    rows = None
    fields = None
    columns = None

    if "verbose" in keywords:
        del keywords["verbose"]

    if "rows" in keywords:
        rows = keywords["rows"]
        del keywords["rows"]

    if "fields" in keywords:
        fields = keywords["fields"]
        del keywords["fields"]
    if "columns" in keywords:
        columns = keywords["columns"]
        del keywords["columns"]

    if fields is None:
        if columns is not None:
            # allow columns to be synonymous with fields
            fields = columns

    fname = ostools.expand_filename(fname)

    if "ignore_missing_end" not in keywords:
        # the ignore_missing_end=True is for the multitude
        # of malformed FITS files out there
        keywords["ignore_missing_end"] = True

    if header == "only":
        return pyfits.getheader(fname, **keywords)

    if header:
        d, h = pyfits.getdata(fname, **keywords)
    else:
        d = pyfits.getdata(fname, **keywords)

    view = keywords.get("view", numpy.ndarray)
    if view is not None:
        d = d.view(view)

    # extract subsets of the data
    if rows is not None:
        d = d[rows]

    if fields is not None:
        d = numpy_util.extract_fields(d.view(numpy.ndarray), fields)

    if header:
        return d, h
    else:
        return d


def write_fits(fname, data, **keys):
    if fits_package == "fitsio":
        write_fits_fitsio(fname, data, **keys)
    elif fits_package == "pyfits":
        write_fits_pyfits(fname, data, **keys)
    else:
        raise ValueError("expected fitsio or pyfits")


def write_fits_fitsio(fname, data, **keys):
    extname = keys.get("extname", None)
    units = keys.get("units", None)
    compress = keys.get("compress", None)
    header = keys.get("header", None)
    clobber = keys.get("clobber", False)

    fitsio.write(
        fname,
        data,
        extname=extname,
        units=units,
        compress=compress,
        header=header,
        clobber=clobber,
    )


def write_fits_pyfits(fname, data, **keys):
    import pyfits

    pyfits.writeto(fname, data, **keys)


def write_rec(fileobj, data, **keys):
    sfile.write(data, fileobj, **keys)


def read_rec(fileobj, **keys):
    import numpy

    header = keys.get("header", False)
    view = keys.get("view", numpy.ndarray)
    rows = keys.get("rows", None)
    columns = keys.get("columns", None)
    fields = keys.get("fields", None)
    ensure_native = keys.get("ensure_native", False)
    verbose = keys.get("verbose", False)

    if header == "only":
        if verbose:
            print("reading header from:", fileobj)
        return sfile.read_header(fileobj)

    # if dtype is sent, we assume there is no header at all
    dtype = keys.get("dtype", None)
    if dtype is not None:
        data = read_rec_plain(fileobj, **keys)
        header = False
    else:
        if header:
            data, hdr = sfile.read(
                fileobj,
                header=header,
                view=view,
                rows=rows,
                fields=fields,
                columns=columns,
            )
        else:
            data = sfile.read(
                fileobj,
                header=header,
                view=view,
                rows=rows,
                fields=fields,
                columns=columns,
            )
    if ensure_native:
        numpy_util.to_native(data, inplace=True)

    if header:
        return data, hdr
    else:
        return data


def read_rec_plain(fileobj, **keys):
    from . import recfile

    with recfile.Recfile(fileobj, **keys) as rf:
        data = rf.read(**keys)
    return data


def read_xml(fileobj, **keywords):
    noroot = keywords.get("noroot", True)
    seproot = keywords.get("seproot", False)
    data = xmltools.xml2dict(fileobj, noroot=noroot, seproot=seproot)
    return data


def write_xml(fileobj, data, **keywords):
    roottag = keywords.get("roottag", None)
    xmltools.dict2xml(data, fileobj, roottag=roottag)


def read_yaml(fileobj, **keywords):
    if isinstance(fileobj, str):
        with open(fileobj) as fobj:
            res = yaml.load(fobj, Loader=yaml.Loader)

    else:
        res = yaml.load(fileobj, Loader=yaml.Loader)

    return res


def write_yaml(fileobj, data, **keywords):
    if isinstance(fileobj, str):
        with open(fileobj, "w") as fobj:
            res = yaml.dump(data, fobj)

    else:
        res = yaml.dump(data, fileobj)

    return res


def read_pyobj(fileobj, **keywords):
    if isinstance(fileobj, str):

        with open(fileobj) as fobj:
            res = eval(fobj.read())

    else:
        res = eval(fileobj.read())

    return res


def write_pyobj(fileobj, data, **keywords):
    import pprint

    if isinstance(fileobj, str):

        with open(fileobj, "w") as fobj:
            pprint.pprint(data, stream=fobj)

    else:
        pprint.pprint(data, stream=fileobj)


def ftype2fext(ftype_input):
    ftype = ftype_input.lower()

    if ftype == "fits" or ftype == "fit":
        return "fits"
    elif ftype == "rec" or ftype == "pya":
        return "rec"
    elif ftype == "json":
        return "json"
    elif ftype == "yaml":
        return "yaml"
    elif ftype == "xml":
        return "xml"
    else:
        raise ValueError("Don't know about '%s' files" % ftype)


def fext2ftype(fext_input):

    fext = fext_input.lower()

    if fext == "fits" or fext == "fit":
        return "fits"
    elif fext == "rec" or fext == "pya":
        return "rec"
    elif fext == "json":
        return "json"
    elif fext == "yaml":
        return "yaml"
    elif fext == "xml":
        return "xml"
    elif fext == "pyobj":
        return "pyobj"
    else:
        raise ValueError("Don't know about files with '%s' extension" % fext)


def _get_fname_ftype_from_inputs(fileobj, **keywords):
    """
    Get filename, file type, and file system
    """

    fs = "local"

    try:
        fname = fileobj.name
        fobj = fileobj
    except AttributeError:
        if is_in_hdfs(fileobj):
            fs = "hdfs"

        # make sure we expand all ~username and other variables
        fname = ostools.expand_filename(fileobj)
        fobj = fname

    ftype = None
    if "type" in keywords:
        ftype = keywords["type"]
    elif "typ" in keywords:
        ftype = keywords["typ"]

    if ftype is None:
        ftype = get_ftype(fname)
    ftype = ftype.lower()

    return fname, fobj, ftype, fs


def get_ftype(filename):
    fsplit = filename.split(".")
    if len(fsplit) == 1:
        raise ValueError(
            "Could not determine file type file filename: '%s'" % filename
        )
    fext = fsplit[-1]
    if (fext == "gz" or fext == "bz" or fext == "bz2") and len(fsplit) > 2:
        fext = fsplit[-2]
    typ = fext2ftype(fext)
    return typ


def fexists(fname):
    if is_in_hdfs(fname):
        return hdfs.exists(fname)
    else:
        return os.path.exists(fname)
