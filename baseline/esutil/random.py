"""
Module:
    random

functions:
    srandu(num=1)
        Generate random numbers in the symmetric distribution [-1,1]
    cholesky_sample
        sample a multivariate covariant distribution using cholesky
        decomposition.  Uses the CholeskySampler
    random_indices:
        Get a unique random selection of indices in [0,imax)

Classes:

    Generator
        A class for creating random samples from an arbitrary input probability
        distribution.  The input distribution can either be an array of points
        along with corresponding x values, or a function.

    CutGenerator
        Generate random points from an arbitrary input probability
        distribution.

    CholeskySampler
        sample a multivariate covariant distribution using cholesky
        decomposition
"""
from __future__ import print_function

import numpy
from numpy import log, exp, pi


# for checking function type, method type
from types import FunctionType, MethodType

from . import stat
from .numpy_util import arrscl

LOWVAL = -9999.0e47


class Generator(object):
    """
    Class Name:
        Generator

    Purpose:
        A class for creating random samples from an arbitrary input probability
        distribution.  The input distribution can either be an array of points
        along with corresponding x values, or a function.

    Calling Sequence:
        import esutil
        gen = esutil.random.Generator(
            pofx, x=None, xrange=None, nx=None,
            method='accum', cumulative=False, rng=None,
            seed=None
        )

        r = gen.sample() # single scalar value
        r = gen.sample(num)

    Inputs:
        pofx:
            Either an array of points or a function.  If p(x) is an array
            sample from the p(x) you must also enter the corresponding x
            values.

    Optional Inputs:
        x:  An array of x values.  If p(x) is a n array, these must correspond.
            If p(x) is a function, these values will be used to define the
            range over which randoms are generated, and if the cut method is
            used, to find the maximum of the input p(x) over the input range.

        xrange=[xmin,xmax]:  If p(x) is a function, you can enter xrange and nx
            and a set of x values will be generated.
        nx:  The number of points to generate in [xmin,xmax].  If p(x) is a
            function you must enter xrange and nx and a set of x values will
            be generated to find max(p(x)).  This could also be done with
            a maximizer from scipy

        method:  The method used for getting random points.

            'accum': The cumulative, or accumulated, distribution is used to
                generate random points.

            'cut': Points are drawn randomly in the 2-d space defined by
                [min(x),max(x)] [0,max(prob)] and only those that lie
                underneath the pofx curve are kept.  This can be used to
                generate randoms from complex distributions that do not
                integrate easily.

        cumulative:
            The input distrubtion pofx is actually the accumulated distro.
            Note for method='cut' this is ignored: you must enter the
            differential distribution.

        rng: random number generator
            e.g. numpy.random.RandomState

        seed: integer
            Used to start a new random number generator if rng is not sent

    Examples:


        Generate random points from a "sampled" pofx, measured at values x.  In
        this case pofx is an array of data instead of a function.

            import esutil
            gen = esutil.random.Generator(pofx, x)
            rand = gen.sample(1000000)


        Generate random points from an arbitrary function. In this case we can
        send a range over which x will be generated and the number of points in
        x to use for the integration.

            def gaussfunc(x):
                return numpy.exp(-0.5*x**2)/numpy.sqrt(2.0*numpy.pi)

            gen = esutil.random.Generator(gaussfunc,
                                          xrange=[-4.5,4.5], nx=100)
            rand = gen.sample(1000000)


    Revision History:
        2010-02-18: Created, Erin Sheldon, BNL.
    """

    def __init__(
        self,
        pofx,
        x=None,
        xrange=None,
        nx=None,
        method="accum",
        cumulative=False,
        seed=None,
        rng=None,
    ):

        # make sure the method is valid
        self._check_method(method)
        self.method = method

        self.cumulative = cumulative

        if rng is None:
            self.rng = numpy.random.RandomState(seed=seed)
        else:
            self.rng = rng

        # different initializations depending if p(x) array was sent or a
        # function

        if isinstance(pofx, (FunctionType, MethodType)):
            if x is None:
                # we'll generate the points from xrange and nx
                if xrange is None or nx is None:
                    raise ValueError(
                        "Enter the points x or both xrange and nx"
                    )
                x = numpy.linspace(xrange[0], xrange[1], nx)

            self.xinput = numpy.atleast_1d(x)

            # input is some type of function
            self.isfunc = True
            self.pofx = pofx

            self.initialize_func()
        else:
            if x is None:
                raise ValueError(
                    "For p(x) an array, you must also enter the "
                    "corresponding x values"
                )

            self.xinput = numpy.atleast_1d(x)

            # points were entered
            self.isfunc = False
            self.pofx = numpy.atleast_1d(pofx)
            if self.xinput.shape != self.pofx.shape:
                raise ValueError("x and pofx must be same shape")

            self.initialize_points()

        if self.method == "cut":
            self.xmin = self.xinput.min()
            self.xmax = self.xinput.max()
            self.xwidth = self.xmax - self.xmin

            # maked rescaled with ranges to [0,1]
            self.xinput_scale = (self.xinput - self.xmin) / self.xwidth
            if not self.isfunc:
                self.pofx_max = pofx.max()
                self.pofx_scale = self.pofx / self.pofx_max
            else:
                # get max from evaluating at input x values
                p = self.pofx(self.xinput)
                self.pofx_max = p.max()

    def _check_method(self, method):
        if method not in ["accum", "cut"]:
            raise ValueError("method must be 'accum' or 'cut'")

    def sample(self, numrand=None, **kw):
        """
        Class:
            random.Genrand

        Purpose:
            Generate random points from the current probability distribution.

        Calling Sequence:
            import esutil

            # see docs on Genrand for info about constructor.
            generator = esutil.random.Generator(pofx, ...)

            rand = generator.genrand(numrand)

        """

        if numrand is None:
            numrand = 1
            is_scalar = True
        else:
            is_scalar = False
        if self.method == "accum":
            vals = self._genrand_accum(numrand)
        elif self.method == "cut":
            vals = self._genrand_cut(numrand)

        if is_scalar:
            vals = vals[0]

        return vals

    genrand = sample

    def _genrand_accum(self, numrand):

        # this returns f8
        urand = self.rng.uniform(size=numrand)

        # to get randoms from the distribution, we interpolate the x(pcum) at
        # the test rand values.  Clever!
        rand = stat.interplin(self.xvals, self.pcum, urand)

        return rand

    def _genrand_cut(self, numrand):

        rand = numpy.zeros(numrand, dtype="f8")

        nleft = numrand
        ngood = 0
        nleft = numrand
        while nleft > 0:

            # generate x,y values in a plane covering [xmin,xmax] [0,max(p(x))]
            randx, randy, pinterp = self.generate_cut_values(nleft)

            # keep ones where the random y values lie under the interpolated
            # curve
            (w,) = numpy.where(randy < pinterp)
            if w.size > 0:
                rand[ngood: ngood + w.size] = randx[w]
                ngood += w.size
                nleft -= w.size

        if not self.isfunc:
            # If we were not working with a function, we had used scaled
            # versions of x and p(x) for speed
            rand *= self.xwidth
            rand += self.xmin

        return rand

    def generate_cut_values(self, num):
        randx = self.rng.uniform(size=num)
        randy = self.rng.uniform(size=num)

        if self.isfunc:
            # get x,y on the right range and evaluate function
            randx *= self.xwidth
            randx += self.xmin
            randy *= self.pofx_max
            pinterp = self.pofx(randx)
        else:
            # for the point distribution, we have scaled versions of the
            # input x and y.  This will save some computation, but we have
            # to interpolate
            pinterp = stat.interplin(self.pofx_scale, self.xinput_scale, randx)
        return randx, randy, pinterp

    def initialize_points(self):
        """
        Set up the case where the user sent x and p(x) points instead
        of a function for p(x)
        """

        if self.method == "accum":
            # we need the cumulative probability distribution

            if self.cumulative:
                # we are done
                self.xvals = self.xinput
                self.norm = self.pofx[-1]
                self.pcum = self.pofx / self.norm

            else:
                # we must integrate and take a subset of x, since the
                # first value is not defined.

                import scipy.integrate

                pcum = scipy.integrate.cumulative_trapezoid(self.pofx, self.xinput)
                self.norm = pcum[-1]
                self.pcum = pcum / self.norm

                # interval is smaller, no integral in first point
                self.xvals = self.xinput[1:]

    def initialize_func(self):
        """
        Set up the case where the user sent x and p(x) as a function
        """

        if self.method == "accum":
            # we need the cumulative probability distribution

            if self.cumulative:
                self.xvals = self.xinput
                self.norm = self.pofx(self.xinput[-1])
                self.pcum = self.pofx(self.xinput) / self.norm
            else:
                # we must integrate and take a subset of x, since the
                # first value is not defined.

                import scipy.integrate

                pofxvals = self.pofx(self.xinput)

                pcum = scipy.integrate.cumulative_trapezoid(pofxvals, self.xinput)
                self.norm = pcum[-1]
                self.pcum = pcum / self.norm

                # interval is smaller, no integral in first point
                self.xvals = self.xinput[1:]

    def test(self, nrand=500000):
        """
        Generate some randoms and compare to input distribution
        """

        import biggles

        x = self.xinput
        if self.isfunc:
            y = self.pofx(x)
        else:
            y = self.pofx

        # generate some randoms
        rand = self.genrand(nrand)

        # make the histogram at the binsize of the
        # xinput
        binsize = x[1] - x[0]
        h = stat.histogram(rand, min=x[0], max=x[-1], binsize=binsize)

        # since on same grid can normalize simply
        h = h / float(h.sum())
        y = y / float(y.sum())

        plt = biggles.FramedPlot()
        py = biggles.Histogram(y, x0=x[0], binsize=binsize)
        ph = biggles.Histogram(h, x0=x[0], binsize=binsize, color="red")

        plt.add(py, ph)
        plt.show()


class CutGenerator(object):
    """
    Generate random points from an arbitrary input probability distribution.

    The method is the "cut" method: Points are generated in the plane
    [xmin,xmax] [0,max(pofx)] and points below the curve are kept.

    This class is specialized to the case where you have a function for pofx
    and you know the maximum of the function.

    parameters
    ----------
    pofx: Either an array of points or a function.  If p(x) is an array sample
        from the p(x) you must also enter the corresponding x values.
    xrange: 2-element sequence
        The range over which random points will be generated.
        [xmin,xmax]
    pofx_max:
        The maximum of the function over the input range.
    seed: optional
        the seed for the random number generator

    Examples:
        import esutil
        def gaussfunc(x):
            return numpy.exp(-0.5*x**2)
        pofx_max=1.0
        xrange=[-5,5]
        gen = esutil.random.CutGenerator(gaussfunc, xrange, pofx_max)
        rand = gen.genrand(1000000)

    Revision History:
        2012-11-06: Created, Erin Sheldon, BNL.
    """

    def __init__(self, pofx, xrange, pofx_max, seed=None):

        self.pofx = pofx
        self.xmin = xrange[0]
        self.xmax = xrange[1]
        self.xwidth = xrange[1] - xrange[0]
        self.pofx_max = pofx_max
        self.seed = seed

        if self.seed is not None:
            numpy.random.seed(seed=seed)

    def genrand(self, numrand, seed=None):
        """
        Generate random points from the input probability distribution.

        parameters
        ----------
        numrand: integer
            The number of randoms to generate
        seed: integer, optional
            A new seed for the random number generator
        """

        if seed is not None:
            numpy.random.seed(seed=seed)

        rand = numpy.zeros(numrand, dtype="f8")

        nleft = numrand
        ngood = 0
        nleft = numrand
        while nleft > 0:

            # generate x,y values in a plane covering [xmin,xmax] [0,max(p(x))]
            randx, randy, pvals = self.generate_cut_values(nleft)

            # keep ones where the random y values lie under the interpolated
            # curve
            (w,) = numpy.where(randy < pvals)
            if w.size > 0:
                rand[ngood: ngood + w.size] = randx[w]
                ngood += w.size
                nleft -= w.size

        return rand

    def generate_cut_values(self, num):
        randx = numpy.random.random(num)
        randy = numpy.random.random(num)

        # get x,y on the right range and evaluate function
        randx *= self.xwidth
        randx += self.xmin
        randy *= self.pofx_max
        pvals = self.pofx(randx)

        return randx, randy, pvals

    def test(self, nrand=500000):
        """
        Generate some randoms and compare to input distribution
        """

        import biggles

        # generate some randoms
        rand = self.genrand(nrand)

        std = rand.std()
        binsize = std * 0.05

        xvals = numpy.arange(self.xmin, self.xmax, binsize)
        yvals = self.pofx(xvals)
        h = stat.histogram(
            rand,
            min=xvals[0] - binsize / 2.0,
            max=xvals[-1] + binsize / 2.0,
            binsize=binsize,
        )

        # since on same grid can normalize simply
        h = h / float(h.sum())
        yvals = yvals / float(yvals.sum())

        plt = biggles.FramedPlot()
        py = biggles.Histogram(yvals, x0=xvals[0], binsize=binsize)
        ph = biggles.Histogram(h, x0=xvals[0], binsize=binsize, color="red")

        plt.add(py, ph)
        plt.show()


def get_dist(typ, pars):
    typ = typ.lower()
    if typ == "normal":
        return Normal(pars[0], pars[1])
    elif typ == "lognormal":
        return LogNormal(pars[0], pars[1])
    else:
        raise ValueError("unsupported dist: %s" % typ)


class Normal(object):
    """
    Lognormal distribution

    parameters
    ----------
    mean, sigma

    methods
    -------
    sample(nrand):
        Get nrand random deviates from the distribution
    lnprob(x):
        Get the natural logarithm of the probability of x.  x can
        be an array
    prob(x):
        Get the probability of x.  x can be an array
    """

    def __init__(self, mean, sigma):
        self.mean = float(mean)
        self.sigma = float(sigma)
        self.ivar = 1.0 / sigma ** 2
        self.maxval = 1.0
        self.maxval_lnprob = 0.0

        self.dist = "Normal"

    def __call__(self, x):
        return self.prob(x)

    def get_dist_name(self):
        """
        Get the name of this distribution
        """
        return self.dist

    def get_mean(self):
        """
        Get the mean of the distribution
        """
        return self.mean

    def get_sigma(self):
        """
        Get the width sigma of the distribution
        """
        return self.sigma

    def get_mode(self):
        """
        Get the location of the peak
        """
        return self.mean

    def get_max(self):
        """
        Get maximum value of this distribution
        """
        return self.maxval

    def get_max_lnprob(self):
        """
        Get maximum value ln(prob) of this distribution
        """
        return self.maxval_lnprob

    def lnprob(self, x):
        """
        Get the natural logarithm of the probability of x.  x can
        be an array
        """

        lnp = -0.5 * self.ivar * (x - self.mean) ** 2
        return lnp

    def prob(self, x):
        """
        Get the probability of x.  x can be an array
        """

        return exp(self.lnprob(x))

    def sample(self, nrand=None):
        """
        Get nrand random deviates from the distribution

        If z is drawn from a normal random distribution,
        then exp(logmean+logsigma*z) is drawn from lognormal
        """
        if nrand is None:
            z = numpy.random.randn()
        else:
            z = numpy.random.randn(nrand)
        z *= self.sigma
        z += self.mean
        return z


class NormalND:
    """
    Currently no covariance
    """

    def __init__(self, mean, sigma):
        self.mean = numpy.array(mean)
        self.sigma = numpy.array(sigma)
        self.sigma2 = numpy.array([s ** 2 for s in sigma])
        self.ivar = 1.0 / self.sigma2

        self.ndim = self.mean.size

    def get_max(self):
        return 1.0

    def lnprob(self, pos):
        if len(pos.shape) > 1:
            lnprob = numpy.zeros(pos.shape[0])
            for i in range(self.ndim):
                lnprob += -0.5 * (self.mean[i] - pos[:, i]) ** 2 * self.ivar[i]

        else:
            lnprob = 0.0
            for i in range(self.ndim):
                lnprob += -0.5 * (self.mean[i] - pos[i]) ** 2 * self.ivar[i]

        return lnprob

    def sample(self, n=None):
        """
        Get a single sample
        """
        if n is None:
            rand = self.mean + self.sigma * numpy.random.randn(self.ndim)
        else:
            rand = numpy.random.randn(n, self.ndim).reshape(n, self.ndim)
            for i in range(self.ndim):
                rand[:, i] *= self.sigma[i]
                rand[:, i] += self.mean[i]

        return rand


class LogNormal(object):
    """
    Lognormal distribution

    parameters
    ----------
    mean:
        such that <x> in linear space is mean.  This implies the mean in log(x)
        is
            <log(x)> = log(mean) - 0.5*log( 1 + sigma**2/mean**2 )
    sigma:
        such than the variace in linear space is sigma**2.  This implies
        the variance in log space is
            var(log(x)) = log( 1 + sigma**2/mean**2 )
    norm: optional
        When calling eval() the return value will be norm*prob(x)


    methods
    -------
    sample(nrand):
        Get nrand random deviates from the distribution
    lnprob(x):
        Get the natural logarithm of the probability of x.  x can
        be an array
    prob(x):
        Get the probability of x.  x can be an array
    """

    def __init__(self, mean, sigma):
        from math import log, exp, sqrt

        mean = float(mean)
        sigma = float(sigma)

        self.dist = "LogNormal"

        if mean <= 1.0e-10:
            raise ValueError("mean %s is < 0" % mean)

        self.mean = mean
        self.sigma = sigma

        self.logmean = log(mean) - 0.5 * log(1 + sigma ** 2 / mean ** 2)
        self.logvar = log(1 + sigma ** 2 / mean ** 2)
        self.logsigma = sqrt(self.logvar)
        self.logivar = 1.0 / self.logvar

        self.nconst = 1.0 / sqrt(2 * pi * self.logvar)
        if self.nconst <= 1.0e-10:
            raise ValueError("logvar %s is too large" % self.logvar)

        self.logofnconst = log(self.nconst)

        self.mode = exp(self.logmean - self.logvar)
        self.maxval = self.prob(self.mode)
        self.maxval_lnprob = log(self.maxval)

    def __call__(self, x):
        return self.prob(x)

    def get_dist_name(self):
        """
        Get the name of this distribution
        """
        return self.dist

    def get_mean(self):
        """
        Get the mean of the distribution
        """
        return self.mean

    def get_sigma(self):
        """
        Get the width sigma of the distribution
        """
        return self.sigma

    def get_mode(self):
        """
        Get the location of the peak
        """
        return self.mode

    def get_max(self):
        """
        Get maximum value of this distribution
        """
        return self.maxval

    def get_max_lnprob(self):
        """
        Get maximum value ln(prob) of this distribution
        """
        return self.maxval_lnprob

    def lnprob(self, x):
        """
        Get the natural logarithm of the probability of x.  x can
        be an array
        """
        if isinstance(x, numpy.ndarray):
            if numpy.any(x <= 1.0e-10):
                raise ValueError("values of x must be > 0")
            return self._lnprob_array(x)
        else:
            if x <= 1.0e-10:
                raise ValueError("values of x must be > 0")
            return self._lnprob_scalar(x)

    def _lnprob_array(self, x):
        """
        This one no error checking
        """
        logx = log(x)

        chi2 = self.logivar * (logx - self.logmean) ** 2

        lnprob = self.logofnconst - 0.5 * chi2 - logx
        return lnprob

    def _lnprob_scalar(self, x):
        """
        This one no error checking
        """
        from math import log

        logx = log(x)

        chi2 = self.logivar * (logx - self.logmean) ** 2

        lnprob = self.logofnconst - 0.5 * chi2 - logx
        return lnprob

    def prob(self, x):
        """
        Get the probability of x.  x can be an array
        and can go < 0 since no logs are taken
        """
        if isinstance(x, numpy.ndarray):
            prob = numpy.zeros(x.size)
            (w,) = numpy.where(x > 0)
            if w.size > 0:
                lnprob = self._lnprob_array(x[w])
                prob[w] = exp(lnprob)
        else:
            if x <= 0:
                prob = 0.0
            else:
                prob = exp(self._lnprob_scalar(x))

        return prob

    def sample(self, nrand=None):
        """
        Get nrand random deviates from the distribution

        If z is drawn from a normal random distribution,
        then exp(logmean+logsigma*z)
        is drawn from lognormal
        """
        if nrand is None:
            z = numpy.random.randn()
        else:
            z = numpy.random.randn(nrand)
        return exp(self.logmean + self.logsigma * z)


def srandu(num=None):
    """
    Generate random numbers in the symmetric distribution [-1,1]
    """
    return 2 * (numpy.random.random(num) - 0.5)


class CholeskySampler(object):
    """
    sample a multivariate covariant distribution using cholesky decomposition

    example
    -------
    means=[20.0, 40.0]
    cov=[[1.0,0.5],[0.5,2.0]]

    cs=CholeskySampler(means,cov)
    n=100000
    rand=cs.sample(n)

    s.mean(axis=0)
    array([ 20.00139558,  50.00419912])

    s.var(axis=0)
    array([ 1.00076388,  2.00251013])

    mm=s.mean(axis=0)
    ( (s[:,0]-mm[0])*(s[:,1]-mm[1]) ).sum()/(n-1)
    0.50052647916418957
    """

    def __init__(self, mean, cov, dist=None):
        self.mean = numpy.array(mean, ndmin=1)
        self.cov = numpy.array(cov, ndmin=2)

        if dist is None:
            dist = numpy.random.randn
        self.dist = dist

        npar = self.mean.size
        n1, n2 = self.cov.shape[0: 0 + 2]
        if npar != self.cov.shape[0] or npar != self.cov.shape[1]:
            raise ValueError(
                "mean shape [%d] inconsistent "
                "with cov shape [%d,%d]" % (npar, n1, n2)
            )

        self.M = numpy.linalg.cholesky(self.cov)
        self.npar = npar

    def sample(self, n=None):
        """
        sample the distribution

        parameters
        ----------
        n: integer, optional
            the number of samples.  If not sent, a single
            sample is returned, otherwise an array [n,npars]
            is returned.
        """

        if n is None:
            n = 1
            is_scalar = True
        else:
            is_scalar = False

        npar = self.npar
        r = self.dist(npar * n).reshape(npar, n)

        V = numpy.dot(self.M, r)

        mean = self.mean
        for i in range(npar):
            V[i, :] += mean[i]

        samples = V.T
        if is_scalar:
            return samples[0, :]
        else:
            return samples


def cholesky_sample(cov, n, means=None, dist=None):
    """
    Sample the input covariance using a cholesky decomposition.  The idea is
    that in each dimension we draw from the standard distribution, and then
    transform them to have the specified covariance matrix.

    This can be used to produce the mean and errors on combined parameters,
    taking into account the covariance.

    parameters
    ----------
    cov: array
        A 2-d array representing the covariance of the parameters
    n: integer
        The number of random points to generate
    means: array, optional
        The mean values to add to the random points; by default
        the randoms are centered on 0
    dist: function, optional
        The distribution function.  Default is numpy.random.randn.

    example:
        cov = array([[1.5,0.3],
                     [0.3,2.7]])
        means=array([5.6, 12.3])
        r = cholesky_sample(cov, 100000, means=means)

        x = (r[0,:]
        erand = (r[1,:]-r[0,:])/(r[1,:]+r[0,:])
        e_mean = erand.mean()
        e_err = erand.std()

    History
        - output is now (npoints,npar) instead of (npar,npoints) to match
        expectation from rec arrays
    """
    if dist is None:
        dist = numpy.random.randn

    npar = cov.shape[0]
    if means is not None:
        nm = len(means)
        if nm != cov.shape[0]:
            raise ValueError("expected %d mean values, got %d" % (npar, nm))

    M = numpy.linalg.cholesky(cov)

    r = dist(npar * n).reshape(npar, n)

    V = numpy.dot(M, r)

    if means is not None:
        for i in range(npar):
            V[i, :] += means[i]

    return V.T


def random_indices(imax, nrand, unique=True, rng=None, seed=None):
    """
    Get a unique random selection of indices in [0,imax)

    Now just calls numpy random choice

    parameters
    ----------
    imax:
        range to draw from is [0,imax)
    nrand:
        Number of randoms to create.
    unique:
        If False, the sample will have replacement, and nrand
        can be greater than imax
    rng: np.default_rng, optional
        Optional random number generator
    seed: int, optional
        A seed to create a new rng
    """

    if rng is None:
        rng = numpy.random.default_rng(seed)

    if not unique:
        replace = True
    else:
        replace = False

    return rng.choice(imax, size=nrand, replace=replace)


def randind(nmax, nrand, dtype=None):
    """
    OBSOLETE, use numpy.random.randint

    Name:
        randind
    Calling Sequence:
        ind = randind(nmax, nrand, dtype=)
    Purpose:
        Generate random indices, with replacement, in the open interval
        [0,nmax)
    Inputs:
        nmax: Indices will be generated to nmax-1
        nrand: Number of randoms to create.
    Optional Inputs:
        dtype:  If not sent, will be unsigned 8-byte integer if
            nmax > 2**32-1 else will be unsigned 4-byte.

    """

    if dtype is None:
        if nmax > (2 ** 32 - 1):
            dtype = "u8"
        else:
            dtype = "u4"

    rnd = numpy.random.random(nrand)
    if nrand == 1:
        ind = int(rnd * nmax)
    else:
        ind = numpy.zeros(nrand, dtype=dtype)
        ind[:] = arrscl(rnd, 0, nmax - 1, arrmin=0.0, arrmax=1.0)

    return ind
