"""
    Module Name:
        cosmology

    Purpose:
        A set of tools for calculating distances in an expanding universe.
        These routines are completely general for any specified omega_m,
        omega_k, and cosmological constant omega_l.  This code follows the
        conventions of Hogg astro-ph/9905116.

        All distances are in units of Mpc/h unless h is specified. Volumes are
        in (Mpc/h)**3.  All return values are arrays.

    Classes:
        Cosmo :  This class is instantiated with the desired cosmology and
            all subsequent calculations are in that cosmology.

            Instantiation:
                import esutil
                cosmo=esutil.cosmology.Cosmo(omega_m=0.3,
                                             omega_l=0.7,
                                             omega_k=0.0,
                                             h=1.0,
                                             flat=True,
                                             npts=5,
                                             vnpts=10)

            All parameters are optional.  For the defaults simply use
                cosmo=esutil.cosmology.Cosmo()

            Methods (see method docs for more details):

                Da(zmin, zmax) : angular diameter distance.
                Dl(zmin, zmax) : luminosity distance.
                distmod(z): Distance modulus.
                dV(z, comoving=True): Volume element.
                V(zmin, zmax, comoving=True):  Volume between two redshifts.
                Dc(zmin,zmax): Comoving distance.
                Dm(zmin,zmax): Transverse comoving distance.
                DH: Hubble distance c/H.
                Ez_inverse(z):
                    1/sqrt( omega_m*(1+z)**3 + omega_k*(1+z)**2 + omega_l)
                Ezinv_integral(z1,z2):
                    Integral of Ez_inverse over a range of redshifts.

    The module also provides these Convenience Functions.  These are called in
    the same way as the class methods listed above, but each also takes in the
    cosmological keywords omega_m,omega_l,omega_k,h,flat as well as appropriate
    integration parameters.

        Da: angular diameter distance.
        Dl: luminosity distance.
        Distmod: Distance modulus.
        dV: Volume element.
        V:  Volume between two redshifts.
        Dc: Comoving distance.
        Dm: Transverse comoving distance.
        DH: Hubble distance c/H.
        Ez_inverse: 1/sqrt( omega_m*(1+z)**3 + omega_k*(1+z)**2 + omega_l)
        Ezinv_integral: Integral of Ez_inverse over a range of redshifts.


    Examples:
        # using the Cosmo class.
        >>> import esutil
        >>> cosmo=esutil.cosmology.Cosmo(omega_m=0.24,h=0.7)
        >>> cosmo.Da(0.0, 0.35)
        array([ 1034.76013423])
        # using a convenience function
        >>> esutil.cosmology.Da(0.0,0.35,omega_m=0.24,h=0.7)
        array([ 1034.76013423])

    Requirements:
        NumPy

    Revision History:
        Copied from IDL routines.  2006-11-07, Erin Sheldon, NYU
        Converted to using faster Gauss-Legendre integration
            2007-05-17, Erin Sheldon, NYU
        Cleaned up imports so the module can be imported without
            numpy/scipy even though nothing will work.  2009-11-01. E.S.S. BNL

        Added Cosmo class for more convenient usage.
            2010-02-18, Erin Sheldon, BNL

"""

import numpy
from numpy import sqrt, sin, sinh, log10, isscalar
from . import integrate

# Global variables for Ez integration.
_EZI_XXi = numpy.array([])
_EZI_WWi = numpy.array([])

# Global variables for volume integration.
_VI_XXi = numpy.array([])
_VI_WWi = numpy.array([])


class Cosmo(object):
    def __init__(
        self,
        omega_m=0.3,
        omega_l=0.7,
        omega_k=0.0,
        H0=100.0,
        h=None,
        flat=True,
        npts=5,
        vnpts=10,
    ):

        # If flat is specified, make sure omega_l = 1-omega_m
        # and omega_k=0

        if h is not None:
            H0 = 100.0 * h
        else:
            h = H0 / 100.0

        flat, omega_m, omega_l, omega_k = self.extract_parms(
            omega_m, omega_l, omega_k, flat
        )

        self.flat = flat

        self.omega_m = omega_m
        self.omega_l = omega_l
        self.omega_k = omega_k
        self.h = h
        self.flat = flat
        self.npts = npts
        self.vnpts = vnpts

        # Will only change if npts changes
        self._ezi_run_gauleg()
        self._vi_run_gauleg()

        self._four_pi_G_over_c_squared = four_pi_G_over_c_squared(dunits="Mpc")

    def __repr__(self):
        rep = """
        H0:      %s
        omega_m: %s
        omega_l: %s
        omega_k: %s
        flat:    %s\n""" % (
            self.h * 100.0,
            self.omega_m,
            self.omega_l,
            self.omega_k,
            self.flat,
        )
        return rep

        # it used to be capilalized
        self.Distmod = self.distmod

    def DH(self):
        """
        NAME:
            DH
        PURPOSE:
            Calculate the Hubble distance in Mpc/h
        CALLING SEQUENCE:
            import esutil
            cosmo=esutil.cosmology.Cosmo(omega_m=0.3,
                                         omega_l=0.7,
                                         omega_k=0.0,
                                         h=1.0,
                                         flat=True,
                                         npts=5,
                                         vnpts=10)
            d = cosmo.DH()
        """
        return 2.99792458e5 / 100.0 / self.h

    def Dc(self, z1in, z2in):
        """
        NAME:
            Dc
        PURPOSE:
            Calculate the comoving distance between redshifts z1 and z2 in
            a FRW universe. Units: Mpc
        CALLING SEQUENCE:
            import esutil
            cosmo=esutil.cosmology.Cosmo(omega_m=0.3,
                                         omega_l=0.7,
                                         omega_k=0.0,
                                         h=1.0,
                                         flat=True,
                                         npts=5,
                                         vnpts=10)
            d=cosmo.Dc(z1, z2)
        INPUTS:
            z1, z2: The redshifts.  These must either be
                1) Two scalars
                2) A scalar and an array.
                3) Two arrays of the same length.
        """

        # Make sure they are arrays, but don't copy if already an array
        z1 = numpy.atleast_1d(z1in)
        z2 = numpy.atleast_1d(z2in)

        # All the permutations of inputs
        dh = self.DH()
        if z1.size == z2.size:
            if z1.size == 1:
                return dh * self.Ezinv_integral(z1, z2)
            else:
                dc = numpy.zeros(z1.size)
                for i in numpy.arange(z1.size):
                    dc[i] = dh * self.Ezinv_integral(z1[i], z2[i])
        else:
            if z1.size == 1:
                dc = numpy.zeros(z2.size)
                for i in numpy.arange(z2.size):
                    dc[i] = dh * self.Ezinv_integral(z1, z2[i])
            elif z2.size == 1:
                dc = numpy.zeros(z1.size)
                for i in numpy.arange(z1.size):
                    dc[i] = dh * self.Ezinv_integral(z1[i], z2)
            else:
                raise ValueError("z1,z2: Must be same length or one a scalar")

        return dc

    def Dm(self, zmin, zmax):
        """
        NAME:
            Dm

        PURPOSE:
            Calculate the transverse comoving distance between two objects at
            the same redshift in a a FRW universe.  Units: Mpc.

        CALLING SEQUENCE:
            import esutil
            cosmo=esutil.cosmology.Cosmo(omega_m=0.3,
                                         omega_l=0.7,
                                         omega_k=0.0,
                                         h=1.0,
                                         flat=True,
                                         npts=5,
                                         vnpts=10)
            d=cosmo.Dm(zmin, zmax)
        INPUTS:
            zmin, zmax: The redshifts.
                Note, to interpret as the transverse distance between objects
                at the same redshift as viewed by a redshift zero observer,
                zmin=0.0  It is useful to allow zmin != 0 when measuring for
                example angular diameter distances between two non zero
                redshifts, as in lensing calculations.  These redshifts must
                either be

                1) Two scalars
                2) A scalar and an array.
                3) Two arrays of the same length.

        """

        dh = self.DH()
        dc = self.Dc(zmin, zmax)

        if self.flat:
            return dc
        elif self.omega_k > 0:
            return dh / sqrt(self.omega_k) * sinh(sqrt(self.omega_k) * dc / dh)
        else:
            return dh / sqrt(-self.omega_k) * sin(sqrt(-self.omega_k) * dc / dh)  # noqa

    def Da(self, zmin, zmax):
        """
        NAME:
            Da
        PURPOSE:
            Calculate the angular diameter distance between z1 and z2 in a
            FRW universe. Units: Mpc.
        CALLING SEQUENCE:
            import esutil
            cosmo=esutil.cosmology.Cosmo(omega_m=0.3,
                                         omega_l=0.7,
                                         omega_k=0.0,
                                         h=1.0,
                                         flat=True,
                                         npts=5,
                                         vnpts=10)
            d=cosmo.Da(zmin, zmax)
        INPUTS:
            zmin, zmax: The redshifts.  These must either be
                1) Two scalars
                2) A scalar and an array.
                3) Two arrays of the same length.
        """

        z1 = numpy.atleast_1d(zmin)
        z2 = numpy.atleast_1d(zmax)
        d = self.Dm(z1, z2)

        da = numpy.where(z1 < z2, d / (1.0 + z2), d / (1.0 + z1))

        return da

    def Dl(self, zmin, zmax):
        """
        NAME:
            Dl
        PURPOSE:
            Calculate the luminosity distance between z1 and z2 in a
            FRW universe. Units: Mpc.
        CALLING SEQUENCE:
            import esutil
            cosmo=esutil.cosmology.Cosmo(omega_m=0.3,
                                         omega_l=0.7,
                                         omega_k=0.0,
                                         h=1.0,
                                         flat=True,
                                         npts=5,
                                         vnpts=10)
            d=cosmo.Dl(zmin, zmax)
        INPUTS:
            zmin, zmax: The redshifts.  These must either be
                1) Two scalars
                2) A scalar and an array.
                3) Two arrays of the same length.
        """

        z1 = numpy.atleast_1d(zmin)
        z2 = numpy.atleast_1d(zmax)
        return self.Da(z1, z2) * (1.0 + z2) ** 2

    def distmod(self, z):
        """
        NAME:
            distmod
        PURPOSE:
            Calculate the distance modulus to redshift z.
        CALLING SEQUENCE:
            import esutil
            cosmo=esutil.cosmology.Cosmo(omega_m=0.3,
                                         omega_l=0.7,
                                         omega_k=0.0,
                                         h=1.0,
                                         flat=True,
                                         npts=5,
                                         vnpts=10)
            d=cosmo.Distmod(z)
        INPUTS:
            z: The redshift(s).
        """

        dmpc = self.Dl(0.0, z)
        dpc = dmpc * 1.0e6
        dm = 5.0 * log10(dpc / 10.0)
        return dm

    def dV(self, z_input, comoving=True):
        """
        NAME:
            dV
        PURPOSE:
            Calculate the volume elementd dV in a FRW universe. Units: Mpc**3
        CALLING SEQUENCE:
            import esutil
            cosmo=esutil.cosmology.Cosmo(omega_m=0.3,
                                         omega_l=0.7,
                                         omega_k=0.0,
                                         h=1.0,
                                         flat=True,
                                         npts=5,
                                         vnpts=10)
            dv = cosmo.dV(z, comoving=True)
        INPUTS:
            z: The redshift
            comoving=True: Use comoving coords, default True.
        """

        z = numpy.atleast_1d(z_input)

        dh = self.DH()
        da = self.Da(0.0, z)
        Ez = 1.0 / self.Ez_inverse(z)
        if comoving:
            dv = dh * da ** 2 / Ez * (1.0 + z) ** 2
        else:
            dv = dh * da ** 2 / Ez * (1.0 + z)

        return dv

    def V(self, zmin, zmax, comoving=True):
        """
        NAME:
            V
        PURPOSE:
            Calculate the volume between zmin and zmax in an FRW universe.
            Units: Mpc**3
        CALLING SEQUENCE:
            import esutil
            cosmo=esutil.cosmology.Cosmo(omega_m=0.3,
                                         omega_l=0.7,
                                         omega_k=0.0,
                                         h=1.0,
                                         flat=True,
                                         npts=5,
                                         vnpts=10)
            v = cosmo.V(zmin, zmax, comoving=True)
        INPUTS:
            zmin, zmax The redshift limits.
            comoving: Use comoving coords, default True.
        """

        # these needed for coordinate transformation
        f1 = (zmax - zmin) / 2.0
        f2 = (zmax + zmin) / 2.0

        zvals = self.vxxi * f1 + f2
        ezivals = self.dV(zvals, comoving=comoving)

        v = f1 * ((ezivals * self.vwwi).sum())
        v = numpy.atleast_1d(v)
        return v

    def extract_parms(self, omega_m, omega_l, omega_k, flat):
        if omega_k is not None:
            # if omega_k is 0.0, we will set flat=True to simplify
            # the calculations
            if omega_k == 0.0:
                flat = True
            else:
                flat = False

        if omega_k is None:
            # without omega_k set we default to flat
            flat = True
            omega_k = 0.0
        elif flat:
            # finally, if flat is set we always put omega_k = 0
            omega_k = 0.0

        if flat:
            omega_l = 1.0 - omega_m

        return flat, omega_m, omega_l, omega_k

    def _ezi_run_gauleg(self):
        self.xxi, self.wwi = integrate.gauleg(-1.0, 1.0, self.npts)

    def _vi_run_gauleg(self):
        self.vxxi, self.vwwi = integrate.gauleg(-1.0, 1.0, self.vnpts)

    def Ez_inverse(self, z):
        """
        NAME:
            Ez_inverse
        PURPOSE:
            Calculate kernel 1/E(z) for distance integrals in FRW universe.
        CALLING SEQUENCE:
            ezi = cosmo.Ez_inverse(z)
        """
        if not isscalar(z):
            z = numpy.array(z)
        arg = (
            self.omega_m * (1.0 + z) ** 3 + self.omega_k * (1.0 + z) ** 2 + self.omega_l  # noqa
        )
        return 1.0 / sqrt(arg)

    def Ezinv_integral(self, z1, z2):
        """
        NAME:
            Ezinv_integral
        PURPOSE:
            Integrate kernel 1/E(z) used for distance calculations in
            FRW universe. Gauss-legendre integration. Default of npts=5
            is actually good to 1.e-8 between redshift 0-1 because it is
            such a slow function.

        CALLING SEQUENCE:
            ezint = Ezinv_integral(z1, z2)
        INPUTS:
            z1, z2: The redshift interval, scalars.
        """

        f1 = (z2 - z1) / 2.0
        f2 = (z2 + z1) / 2.0

        zvals = self.xxi * f1 + f2
        ezivals = self.Ez_inverse(zvals)

        ezint = f1 * ((ezivals * self.wwi).sum())
        return abs(ezint)

    def sigmacritinv(self, zl, zs):
        """
        Method:
            sigmacritinv
        Purpose:
            Calculate the inverse critical density for lensing. The units
            are pc^2/Msun
        usage:
            c=Cosmo(keywords..)
            sc = c.sigmacritinv(zl, zs)

        Possible inputs:
            zl scalar, zs scalar
            zl scalar, zs vector
            zl vector, zs scalar
            zl vector, zs vector of the same length

        """

        zl = numpy.atleast_1d(zl)
        zs = numpy.atleast_1d(zs)

        if (zl.size != 1) and (zs.size != 1):
            if zl.size != zs.size:
                raise ValueError(
                    "Possible z input:\n"
                    "  zl scalar, zs scalar"
                    "  zl scalar, zs vector"
                    "  zl vector, zs scalar"
                    "  zl vector, zs vector of the same length"
                )

        # units are Mpc
        dl = self.Da(0.0, zl)
        ds = self.Da(0.0, zs)
        dls = self.Da(zl, zs)

        D = dls * dl / ds  # Mpc/h
        scinv = D * self._four_pi_G_over_c_squared

        (w,) = numpy.where(zs <= zl)
        if w.size > 0:
            scinv[w] = 0.0

        return scinv


def four_pi_G_over_c_squared(dunits="Mpc"):
    """
    4*pi*G/c^2 Dl * Dls/Ds has units of m^2/kg

    we want units of pc^2/kg and Dl in units specified
    by the dunits keyword
    """

    from math import pi as PI

    # we want the formula to return pc^2/Msun
    C = 2.99792458e8  # m/s
    GNEWTON = 6.67428e-11  # m^3/kg/s^2

    KG_PER_SUN = 1.98892e30  # kg
    M_PER_PARSEC = 3.08568025e16

    # m^2/kg
    fourpiGoverc2 = 4.0 * PI * GNEWTON / (C ** 2)

    if dunits == "meters":
        return fourpiGoverc2
    else:
        # pc^2/msun, but would require Dl in parsecs
        fourpiGoverc2 *= KG_PER_SUN / M_PER_PARSEC

        if dunits == "kpc":
            return fourpiGoverc2 * 1.0e3
        elif dunits == "Mpc":
            return fourpiGoverc2 * 1.0e6
        elif dunits == "Gpc":
            return fourpiGoverc2 * 1.0e9
        else:
            raise ValueError("Don't support dunits='%s'" % dunits)


def DH(h=1.0):
    """
    NAME:
        DH
    PURPOSE:
        Calculate the Hubble distance in Mpc/h
    CALLING SEQUENCE:
        d = DH(h=1.0)
    """
    return 2.9979e5 / 100.0 / h


def Ez_inverse(z, omega_m, omega_l, omega_k):
    """
    NAME:
        Ez_inverse
    PURPOSE:
        Calculate kernel 1/E(z) for distance integrals in FRW universe.
    CALLING SEQUENCE:
        ezi = Ez_inverse(z, omega_m, omega_l, omega_k)
    """
    return 1.0 / sqrt(omega_m * (1.0 + z) ** 3 + omega_k * (1.0 + z) ** 2 + omega_l)  # noqa


# Old slower version using scipy integrator
def Ezinv_integral_old(z1, z2, omega_m, omega_l, omega_k):
    """
    NAME:
        Ezinv_integral
    PURPOSE:
        Integrate kernel 1/E(z) used for distance calculations in FRW
        universe. Uses the "quad" integrator in scipy, which calls
        the fortran library QUADPACK.
    CALLING SEQUENCE:
        ezint = Ezinv_integral(z1, z2, omega_m, omega_l, omega_k)
    """
    # just import here since we don't use this old version any more
    import scipy.integrate

    (val, err) = scipy.integrate.quad(
        Ez_inverse, z1, z2, args=(omega_m, omega_l, omega_k)
    )
    return numpy.abs(val)


def _ezi_run_gauleg(npts):
    if _EZI_XXi.size != npts:
        globals()["_EZI_XXi"], globals()["_EZI_WWi"] = integrate.gauleg(-1.0, 1.0, npts)  # noqa


def Ezinv_integral(z1, z2, omega_m, omega_l, omega_k, npts=5):
    """
    NAME:
        Ezinv_integral
    PURPOSE:
        Integrate kernel 1/E(z) used for distance calculations in FRW
        universe. Gauss-legendre integration.  Defaults to npts=5 which
        is actually good to 1.e-8 to redshift 1 because it is such a slow
        function.
    CALLING SEQUENCE:
        ezint = Ezinv_integral(z1, z2, omega_m, omega_l, omega_k, npts=5)
    INPUTS:
        z1, z2: The redshift interval, scalars.
        omega_m, omega_l, omega_k: Density parameters relative to critical.
        h: Hubble parameter. Default 1.0
        npts: Number of points in the integration. Default 5, good to 1.e-8
            to redshift 1.
    """

    # Will only change if npts changes
    _ezi_run_gauleg(npts)

    f1 = (z2 - z1) / 2.0
    f2 = (z2 + z1) / 2.0

    zvals = _EZI_XXi * f1 + f2
    ezivals = Ez_inverse(zvals, omega_m, omega_l, omega_k)

    ezint = f1 * ((ezivals * _EZI_WWi).sum())
    return abs(ezint)


def _extract_omegas(omega_m, omega_l, omega_k, flat):
    if flat:
        omega_l = 1.0 - omega_m
        omega_k = 0.0
    return (omega_m, omega_l, omega_k)


def Dc(z1in, z2in,
       omega_m=0.3, omega_l=0.7, omega_k=0.0,
       h=1.0, flat=True, npts=5):
    """
    NAME:
        Dc
    PURPOSE:
        Calculate the comoving distance between redshifts z1 and z2 in
        a FRW universe. Units: Mpc
    CALLING SEQUENCE:
        d=Dc(z1, z2, omega_m=0.3, omega_l=0.7, omega_k=0.0, h=1.0,
             flat=True, npts=5)
    INPUTS:
        z1, z2: The redshifts.  These must either be
           1) Two scalars
           2) A scalar and an array.
           3) Two arrays of the same length.
        omega_m, omega_l, omega_k: Density parameters relative to critical.
          If flat=True, then only omega_m is used, omega_l is set to
          1.0 - omega_m, and omega_k=0.0.   Defaults, 0.3, 0.7, 0.0
        h: Hubble parameter. Default 1.0
        flat: Should we assume a flat cosmology?  Default True.
        npts: Number of points in the integration. Default 5, good to 1.e-8
            to redshift 1.
    """

    omega_m, omega_l, omega_k = _extract_omegas(
        omega_m, omega_l, omega_k, flat,
    )

    # Make sure they are arrays, but don't copy if already an array
    z1 = numpy.atleast_1d(z1in)
    z2 = numpy.atleast_1d(z2in)

    # All the permutations of inputs
    dh = DH(h=h)
    if z1.size == z2.size:
        if z1.size == 1:
            return dh * Ezinv_integral(
                z1, z2, omega_m, omega_l, omega_k, npts=npts,
            )
        else:
            dc = numpy.zeros(z1.size)
            for i in numpy.arange(z1.size):
                dc[i] = dh * Ezinv_integral(
                    z1[i], z2[i], omega_m, omega_l, omega_k, npts=npts
                )
    else:
        if z1.size == 1:
            dc = numpy.zeros(z2.size)
            for i in numpy.arange(z2.size):
                dc[i] = dh * Ezinv_integral(
                    z1, z2[i], omega_m, omega_l, omega_k, npts=npts
                )
        elif z2.size == 1:
            dc = numpy.zeros(z1.size)
            for i in numpy.arange(z1.size):
                dc[i] = dh * Ezinv_integral(
                    z1[i], z2, omega_m, omega_l, omega_k, npts=npts
                )
        else:
            raise ValueError("z1,z2: Must be same length or one a scalar")

    return dc


def Dm(zmin, zmax,
       omega_m=0.3, omega_l=0.7, omega_k=0.0,
       h=1.0, flat=True, npts=5):
    """
    NAME:
        Dm
    PURPOSE:
        Calculate the transverse comoving distance between two objects at the
        same redshift in a a FRW universe.  Units: Mpc.
    CALLING SEQUENCE:
        d=Dm(zmin, zmax, omega_m=0.3, omega_l=0.7, omega_k=0.0, h=1.0,
             flat=True, npts=5)
    INPUTS:
        zmin, zmax: The redshifts.  Note, to interpret as the transverse
          distance between objects at the same redshift as viewed by a redshift
          zero observer, zmin=0.0  It is useful to allow zmin != 0 when
          measuring for example angular diameter distances between two non
          zero redshifts, as in lensing calculations.  These redshifts must
          either be
            1) Two scalars
            2) A scalar and an array.
            3) Two arrays of the same length.
        omega_m, omega_l, omega_k: Density parameters relative to critical.
          If flat=True, then only omega_m is used, omega_l is set to
          1.0 - omega_m, and omega_k=0.0.   Defaults, 0.3, 0.7, 0.0
        h: Hubble parameter. Default 1.0
        flat: Should we assume a flat cosmology?  Default True.
        npts: Number of points in the integration. Default 5, good to 1.e-8
            to redshift 1.
    """
    omega_m, omega_l, omega_k = _extract_omegas(
        omega_m, omega_l, omega_k, flat,
    )

    dh = DH(h=h)
    dc = Dc(zmin, zmax, omega_m, omega_l, omega_k, h=h, flat=flat, npts=npts)

    if omega_k == 0:
        return dc
    elif omega_k > 0:
        return dh / sqrt(omega_l) * sinh(sqrt(omega_k) * dc / dh)
    else:
        return dh / sqrt(omega_l) * sin(sqrt(omega_k) * dc / dh)


def Da(zmin, zmax,
       omega_m=0.3, omega_l=0.7, omega_k=0.0,
       h=1.0, flat=True, npts=5):
    """
    NAME:
        Da
    PURPOSE:
        Calculate the angular diameter distance between z1 and z2 in a
        FRW universe. Units: Mpc.
    CALLING SEQUENCE:
        d=Da(zmin, zmax, omega_m=0.3, omega_l=0.7, omega_k=0.0, h=1.0,
             flat=True, npts=5)
    INPUTS:
        zmin, zmax: The redshifts.  These must either be
           1) Two scalars
           2) A scalar and an array.
           3) Two arrays of the same length.
        omega_m, omega_l, omega_k: Density parameters relative to critical.
          If flat=True, then only omega_m is used, omega_l is set to
          1.0 - omega_m, and omega_k=0.0.   Defaults, 0.3, 0.7, 0.0
        h: Hubble parameter. Default 1.0
        flat: Should we assume a flat cosmology?  Default True.
        npts: Number of points in the integration. Default 5, good to 1.e-8
            to redshift 1.
    """
    z1 = numpy.atleast_1d(zmin)
    z2 = numpy.atleast_1d(zmax)
    d = Dm(z1, z2, omega_m, omega_l, omega_k, h=h, flat=flat, npts=npts)

    da = numpy.where(z1 < z2, d / (1.0 + z2), d / (1.0 + z1))

    return da


def Dl(zmin, zmax,
       omega_m=0.3, omega_l=0.7, omega_k=0.0, h=1.0,
       flat=True, npts=5):
    """
    NAME:
        Dl
    PURPOSE:
        Calculate the luminosity distance between z1 and z2 in a
        FRW universe. Units: Mpc.
    CALLING SEQUENCE:
        d=Dl(zmin, zmax, omega_m=0.3, omega_l=0.7, omega_k=0.0, h=1.0,
             flat=True, npts=5)
    INPUTS:
        zmin, zmax: The redshifts.  These must either be
           1) Two scalars
           2) A scalar and an array.
           3) Two arrays of the same length.
        omega_m, omega_l, omega_k: Density parameters relative to critical.
          If flat=True, then only omega_m is used, omega_l is set to
          1.0 - omega_m, and omega_k=0.0.   Defaults, 0.3, 0.7, 0.0
        h: Hubble parameter. Default 1.0
        flat: Should we assume a flat cosmology?  Default True.
        npts: Number of points in the integration. Default 5, good to 1.e-8
            to redshift 1.
    """
    return Da(zmin, zmax, omega_m, omega_l, omega_k, h, flat, npts) * (1.0 + zmax) ** 2  # noqa


def Distmod(z,
            omega_m=0.3, omega_l=0.7, omega_k=0.0,
            h=1.0, flat=True, npts=5):
    """
    NAME:
        Distmod
    PURPOSE:
        Calculate the distance modulus to redshift z.
    CALLING SEQUENCE:
        d=Distmod(z, omega_m=0.3, omega_l=0.7, omega_k=0.0, h=1.0,
                  flat=True, npts=5)
    INPUTS:
        z: The redshift(s).
        omega_m, omega_l, omega_k: Density parameters relative to critical.
          If flat=True, then only omega_m is used, omega_l is set to
          1.0 - omega_m, and omega_k=0.0.   Defaults, 0.3, 0.7, 0.0
        h: Hubble parameter. Default 1.0
        flat: Should we assume a flat cosmology?  Default True.
        npts: Number of points in the integration. Default 5, good to 1.e-8
            to redshift 1.
    """

    dmpc = Dl(
        0.0,
        z,
        omega_m=omega_m,
        omega_l=omega_l,
        omega_k=omega_k,
        h=h,
        flat=flat,
        npts=npts,
    )
    dpc = dmpc * 1.0e6
    dm = 5.0 * log10(dpc / 10.0)
    return dm


def dV(
    z, omega_m=0.3, omega_l=0.7, omega_k=0.0,
    h=1.0, flat=True, npts=5, comoving=True
):
    """
    NAME:
        dV
    PURPOSE:
        Calculate the volume elementd dV in a FRW universe. Units: Mpc**3
    CALLING SEQUENCE:
        dv = dV(z, omega_m=0.3, omega_l=0.7, omega_k=0.0, h=1.0,
                flat=True, npts=5, comoving=True)
    INPUTS:
        z: The redshift
        omega_m, omega_l, omega_k: Density parameters relative to critical.
          If flat=True, then only omega_m is used, omega_l is set to
          1.0 - omega_m, and omega_k=0.0.   Defaults, 0.3, 0.7, 0.0
        h: Hubble parameter. Default 1.0
        flat: Should we assume a flat cosmology?  Default True.
        npts: Number of points in the integration. Default 5, good to 1.e-8
            to redshift 1.
    """

    dh = DH(h=h)
    da = Da(0.0, z, omega_m, omega_l, omega_k, h=h, flat=flat, npts=npts)
    Ez = 1.0 / Ez_inverse(z, omega_m, omega_l, omega_k)
    if comoving:
        dv = dh * da ** 2 / Ez * (1.0 + z) ** 2
    else:
        dv = dh * da ** 2 / Ez * (1.0 + z)

    return dv


# This is about a factor of 3 slower than the new one
def Vold(
    zmin,
    zmax,
    omega_m=0.3,
    omega_l=0.7,
    omega_k=0.0,
    h=1.0,
    flat=True,
    npts=5,
    comoving=True,
):
    """
    NAME:
        V
    PURPOSE:
        Calculate the volume between zmin and zmax in an FRW universe.
        Units: Mpc**3
    CALLING SEQUENCE:
        v = V(zmin, zmax, omega_m=0.3, omega_l=0.7, omega_k=0.0, h=1.0,
              flat=True, npts=5, comoving=True)
    INPUTS:
        zmin, zmax The redshift limits.
        omega_m, omega_l, omega_k: Density parameters relative to critical.
          If flat=True, then only omega_m is used, omega_l is set to
          1.0 - omega_m, and omega_k=0.0.   Defaults, 0.3, 0.7, 0.0
        h: Hubble parameter. Default 1.0
        flat: Should we assume a flat cosmology?  Default True.
        npts: Number of points in the distance integration. Default 5, good to
            1.e-8 to redshift 1.
    """

    # just import here since we don't use this old version any more
    import scipy.integrate

    (v, err) = scipy.integrate.quad(
        dV, zmin, zmax, args=(omega_m, omega_l, omega_k, h, flat, npts)
    )
    return v


def _vi_run_gauleg(npts):
    if _VI_XXi.size != npts:
        globals()["_VI_XXi"], globals()["_VI_WWi"] = integrate.gauleg(
            -1.0, 1.0, npts,
        )


def V(
    zmin,
    zmax,
    omega_m=0.3,
    omega_l=0.7,
    omega_k=0.0,
    h=1.0,
    flat=True,
    npts=5,
    vnpts=10,
    comoving=True,
):
    """
    NAME:
        V
    PURPOSE:
        Calculate the volume between zmin and zmax in an FRW universe.
        Units: Mpc**3
    CALLING SEQUENCE:
        v = V(zmin, zmax, omega_m=0.3, omega_l=0.7, omega_k=0.0, h=1.0,
              flat=True, npts=5, vnpts=100, comoving=True)
    INPUTS:
        zmin, zmax The redshift limits.
        omega_m, omega_l, omega_k: Density parameters relative to critical.
          If flat=True, then only omega_m is used, omega_l is set to
          1.0 - omega_m, and omega_k=0.0.   Defaults, 0.3, 0.7, 0.0
        h: Hubble parameter. Default 1.0
        flat: Should we assume a flat cosmology?  Default True.
        npts: Number of points in the distance integration. Default 5, good to
            1.e-8 to redshift 1.
        vnpts: Number of points in the volume integration. Default is 10
        comoving: Use comoving coords, default True.
    """

    # Will only change if npts changes
    _vi_run_gauleg(vnpts)

    # these needed for coordinate transformation
    f1 = (zmax - zmin) / 2.0
    f2 = (zmax + zmin) / 2.0

    zvals = _VI_XXi * f1 + f2
    ezivals = dV(
        zvals, omega_m, omega_l, omega_k, h, flat, comoving=comoving, npts=npts
    )

    v = f1 * ((ezivals * _VI_WWi).sum())
    v = numpy.array(v, ndmin=1)
    return v
