"""

Some convenience functions for working with json files.
    http://en.wikipedia.org/wiki/JSON

Functions:

    json_util.read(file):

        Read from the file name or opened file object. If the faster cjson is
        available, an attempt to use it is made.  If this fails (cjson is known
        to fail in certain corner cases) ordinary json is tried.

    json_util.write(obj, file, pretty=True):

        Write the object to a json file.  The "file" input can be either a file
        name or opened file object.  Ordinary json is the default since it
        supports human readable writing.  Sending pretty=False to the write
        program will force use of the faster cjson if it is available.


"""

try:
    import json
    have_json = True
except ImportError:
    have_json = False

try:
    import cjson
    have_cjson = True
except ImportError:
    have_cjson = False


def read(fname, **keys):
    """
    obj = json_util.read(file):

    Read from the file name or opened file object. If the faster cjson is
    available, an attempt to use it is made.  If this fails (cjson is known
    to fail in certain corner cases) ordinary json is tried.
    """

    if not have_json and not have_cjson:
        raise ImportError("Neither cjson or json could be imported")

    input_fileobj = False
    if hasattr(fname, 'write'):
        input_fileobj = True
        fobj = fname
    else:
        fobj = open(fname)

    if have_cjson:
        try:
            data = cjson.decode(fobj.read())
        except Exception:
            # fall back to using json
            fobj.seek(0)
            data = json.load(fobj)
    else:
        data = json.load(fobj)

    if not input_fileobj:
        fobj.close()
    return data


def write(obj, fname, pretty=True, **keys):
    """
    json_util.write(obj, fname, pretty=True)

    Write the object to a json file.  The "file" input can be either a file
    name or opened file object.  Ordinary json is the default since it
    supports human readable writing.  Sending pretty=False to the write
    program will force use of cjson if it is available.
    """

    if not have_json and not have_cjson:
        raise ImportError("Neither cjson or json could be imported")

    input_fileobj = False

    if hasattr(fname, 'write'):
        input_fileobj = True
        fobj = fname
    else:
        fobj = open(fname, 'w')

    if not pretty and have_cjson:
        jstring = cjson.encode(obj)
        fobj.write(jstring)
    else:
        json.dump(obj, fobj, indent=1, separators=(',', ':'))

    if not input_fileobj:
        fobj.close()
